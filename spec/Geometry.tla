------------------------------ MODULE Geometry ------------------------------
(***************************************************************************)
(* Anisotropy and rotation of a GSTools covariance model as an exact       *)
(* linear change of coordinates (property C12) and the rule for the time   *)
(* axis of spatio-temporal models (part of C13).                           *)
(*                                                                         *)
(* Everything is exact: angles are quarter turns q \in 0..3 (cos, sin in   *)
(* {0, 1, -1}), so rotations are signed permutation matrices with integer  *)
(* entries; anisotropy ratios are powers of two given by their exponents   *)
(* e \in {-1, 0, 1} (ratios 1/2, 1, 2); everything else is a rational      *)
(* <<num, den>> in lowest terms.                                           *)
(*                                                                         *)
(* What is written down here from the DOCUMENTATION                        *)
(*  - Givens(d, <<i, j>>, q): rotation in the oriented plane (e_i, e_j) by *)
(*    q quarter turns, e_i turning towards e_j ("givens_rotation").        *)
(*  - Planes(d): xy, xz, yz, then the planes with the 4th axis.            *)
(*  - 2-D: the angle is a counter-clockwise rotation about z;              *)
(*    3-D: yaw, pitch, roll = right-handed rotations about z, y, x         *)
(*    (Tait-Bryan).  ConventionOK states this with the cross-product rule, *)
(*    independently of the sign rule below.                                *)
(*  - matrix_rotate "rotates points to the target coordinate-system": its  *)
(*    image of e_i is the i-th main axis; derotate is its inverse;         *)
(*    isometrize = derotate, then divide the transversal axes by the       *)
(*    ratios; anisometrize = multiply by the ratios, then rotate.          *)
(*                                                                         *)
(* What is taken from the CODE because the documentation is silent         *)
(*  - Order: in which order the elementary rotations are composed          *)
(*    (the docs say "yaw, pitch, roll" but not whether about fixed or      *)
(*    about rotated axes).  Named constant, see below.                     *)
(*  - SignRule: the code comment "angles have alternating signs to match   *)
(*    tait-bryan".  For the three planes of 3-D this rule is NOT trusted:  *)
(*    ConventionOK verifies that it yields the documented right-handed     *)
(*    yaw/pitch/roll.  For the three planes containing the 4th axis there  *)
(*    is no documented convention; the alternation is simply continued.    *)
(***************************************************************************)
EXTENDS Integers, Sequences, FiniteSets, TLC

CONSTANTS
  Mode,      \* "lin" (C12) | "giv" (elementary rotations, conventions) | "tmp" (time axis, C13)
  Dims,      \* set of dimensions to explore
  QSets,     \* sequence of 6 sets: values allowed for the k-th angle (job partitioning / subsets)
  ExpSet,    \* function d -> set of exponent vectors (length d-1) to explore
  XPts,      \* function d -> sequence of integer test positions (each a sequence of length d)
  LenExp     \* exponents of the main length scale used for the radius clause

(* The two clauses taken from the implementation (matrix_rotate):
   Order: R = G_n * ... * G_2 * G_1, the first angle acts first on a point, i.e. in 3-D
   yaw, pitch and roll turn about the FIXED axes z, y, x in this order.
   SignRule: sign of the k-th angle (k = 1, 2, ...), "alternating signs". *)
Order    == "FirstAngleInnermost"
SignRule(k) == IF k % 2 = 1 THEN 1 ELSE -1

VARIABLES cfg, out
vars == <<cfg, out>>

-----------------------------------------------------------------------------
(* rationals <<n, d>>, d > 0, lowest terms *)
Abs(x) == IF x < 0 THEN -x ELSE x
RECURSIVE GCD(_, _)
GCD(a, b) == IF b = 0 THEN a ELSE GCD(b, a % b)
RNorm(n, d) == IF n = 0 THEN <<0, 1>>
               ELSE LET g == GCD(Abs(n), d) IN <<n \div g, d \div g>>
RInt(k)    == <<k, 1>>
(* the first branches are shortcuts only (same values as the general formula) *)
RMul(a, b) == IF a[1] = 0 \/ b[1] = 0 THEN <<0, 1>>
              ELSE IF a[2] = 1 /\ b[2] = 1 THEN <<a[1] * b[1], 1>>
              ELSE RNorm(a[1] * b[1], a[2] * b[2])
RAdd(a, b) == IF a[1] = 0 THEN b ELSE IF b[1] = 0 THEN a
              ELSE IF a[2] = 1 /\ b[2] = 1 THEN <<a[1] + b[1], 1>>
              ELSE RNorm(a[1] * b[2] + b[1] * a[2], a[2] * b[2])
RECURSIVE Pow2N(_)
Pow2N(e)   == IF e = 0 THEN 1 ELSE 2 * Pow2N(e - 1)
Pow2(e)    == IF e >= 0 THEN <<Pow2N(e), 1>> ELSE <<1, Pow2N(-e)>>
RInv(a)    == IF a[1] > 0 THEN <<a[2], a[1]>> ELSE <<-a[2], -a[1]>>   \* a # 0
RSq(a)     == RMul(a, a)
(* compact output encoding: value = n / 4, asserted to be exact *)
Q4(a) == IF (4 * a[1]) % a[2] = 0 THEN (4 * a[1]) \div a[2]
         ELSE Assert(FALSE, <<"not a multiple of 1/4", a>>)

-----------------------------------------------------------------------------
(* matrices = sequences of rows; integer (I...) and rational (R...) versions.
   TLCEval(x) = x; it only makes TLC evaluate a function constructor once
   instead of at every application (without it the recursion is exponential). *)
RECURSIVE ISum(_, _)
ISum(f, n) == IF n = 0 THEN 0 ELSE f[n] + ISum(f, n - 1)
RECURSIVE RSum(_, _)
RSum(f, n) == IF n = 0 THEN <<0, 1>> ELSE RAdd(f[n], RSum(f, n - 1))

Id(d)  == TLCEval([i \in 1..d |-> TLCEval([j \in 1..d |-> IF i = j THEN 1 ELSE 0])])
RId(d) == TLCEval([i \in 1..d |-> TLCEval([j \in 1..d |-> IF i = j THEN <<1, 1>> ELSE <<0, 1>>])])
Rows(A) == Len(A)
Cols(A) == Len(A[1])
IMatMul(A, B) == TLCEval([i \in 1..Rows(A) |-> TLCEval([j \in 1..Cols(B) |->
                    ISum([k \in 1..Cols(A) |-> A[i][k] * B[k][j]], Cols(A))])])
RMatMul(A, B) == TLCEval([i \in 1..Rows(A) |-> TLCEval([j \in 1..Cols(B) |->
                    RSum([k \in 1..Cols(A) |-> RMul(A[i][k], B[k][j])], Cols(A))])])
Transpose(A) == TLCEval([i \in 1..Cols(A) |-> TLCEval([j \in 1..Rows(A) |-> A[j][i]])])
ToR(A) == TLCEval([i \in 1..Rows(A) |-> TLCEval([j \in 1..Cols(A) |-> RInt(A[i][j])])])
Col(A, j) == TLCEval([i \in 1..Rows(A) |-> A[i][j]])
Unit(d, i) == TLCEval([k \in 1..d |-> IF k = i THEN 1 ELSE 0])
(* matrix whose columns are the given vectors *)
FromCols(cs) == LET c == TLCEval([j \in 1..Len(cs) |-> TLCEval(cs[j])])
                IN TLCEval([i \in 1..Len(c[1]) |-> TLCEval([j \in 1..Len(c) |-> c[j][i]])])

Minor(A, r, c) == TLCEval([i \in 1..(Rows(A) - 1) |-> TLCEval([j \in 1..(Cols(A) - 1) |->
                     A[IF i < r THEN i ELSE i + 1][IF j < c THEN j ELSE j + 1]])])
RECURSIVE Det(_)
Det(A) == IF Rows(A) = 1 THEN A[1][1]
          ELSE ISum([j \in 1..Cols(A) |->
                       (IF j % 2 = 1 THEN 1 ELSE -1) * A[1][j] * Det(Minor(A, 1, j))], Cols(A))

BlockDiag1(A) == LET n == Rows(A) IN
  TLCEval([i \in 1..(n + 1) |-> TLCEval([j \in 1..(n + 1) |->
     IF i <= n /\ j <= n THEN A[i][j] ELSE IF i = j THEN 1 ELSE 0])])

-----------------------------------------------------------------------------
(* quarter turns *)
Cos4(q) == <<1, 0, -1, 0>>[(q % 4) + 1]
Sin4(q) == <<0, 1, 0, -1>>[(q % 4) + 1]
NegQ(q) == (4 - (q % 4)) % 4

NoAngles(d) == (d * (d - 1)) \div 2
AllPlanes   == << <<1, 2>>, <<1, 3>>, <<2, 3>>, <<1, 4>>, <<2, 4>>, <<3, 4>> >>
Planes(d)   == TLCEval([k \in 1..NoAngles(d) |-> AllPlanes[k]])

(* rotation in the oriented plane (e_i, e_j): e_i -> cos e_i + sin e_j,
   e_j -> -sin e_i + cos e_j, all other axes fixed; given by its columns *)
Givens(d, p, q) == FromCols([k \in 1..d |->
     IF k = p[1] THEN [m \in 1..d |-> IF m = p[1] THEN Cos4(q) ELSE IF m = p[2] THEN Sin4(q) ELSE 0]
     ELSE IF k = p[2] THEN [m \in 1..d |-> IF m = p[1] THEN -Sin4(q) ELSE IF m = p[2] THEN Cos4(q) ELSE 0]
     ELSE Unit(d, k)])

SQ(k, q) == IF SignRule(k) = 1 THEN q % 4 ELSE NegQ(q)

RECURSIVE RotUpTo(_, _, _)
RotUpTo(d, qs, k) ==
  IF k = 0 THEN Id(d)
  ELSE LET G == Givens(d, Planes(d)[k], SQ(k, qs[k]))
           P == RotUpTo(d, qs, k - 1)
       IN IF Order = "FirstAngleInnermost" THEN IMatMul(G, P) ELSE IMatMul(P, G)
Rotate(d, qs) == RotUpTo(d, qs, NoAngles(d))

(* derotation: undo the elementary rotations, last one first *)
RECURSIVE DerotUpTo(_, _, _)
DerotUpTo(d, qs, k) ==
  IF k = 0 THEN Id(d)
  ELSE LET G == Givens(d, Planes(d)[k], NegQ(SQ(k, qs[k])))
           P == DerotUpTo(d, qs, k - 1)
       IN IF Order = "FirstAngleInnermost" THEN IMatMul(P, G) ELSE IMatMul(G, P)
Derotate(d, qs) == DerotUpTo(d, qs, NoAngles(d))

(* anisotropy: es = exponents of the d-1 transversal ratios *)
Ratio(es, i)   == IF i = 1 THEN <<1, 1>> ELSE Pow2(es[i - 1])       \* i = axis number 1..d
Stretch(d, es) == TLCEval([i \in 1..d |-> TLCEval([j \in 1..d |-> IF i = j THEN Ratio(es, i) ELSE <<0, 1>>])])
Shrink(d, es)  == TLCEval([i \in 1..d |-> TLCEval([j \in 1..d |-> IF i = j THEN RInv(Ratio(es, i)) ELSE <<0, 1>>])])

Iso(d, qs, es)   == RMatMul(Shrink(d, es), ToR(Derotate(d, qs)))
Aniso(d, qs, es) == RMatMul(ToR(Rotate(d, qs)), Stretch(d, es))

(* i-th main axis = image of e_i under the rotation *)
MainAxes(d, qs) == LET R == Rotate(d, qs) IN TLCEval([i \in 1..d |-> Col(R, i)])

(* spatio-temporal models: the planes containing the last (time) axis are never rotated *)
TemporalQs(d, qs) == TLCEval([k \in 1..NoAngles(d) |-> IF k > NoAngles(d - 1) THEN 0 ELSE qs[k]])
TIso(d, qs, es)   == Iso(d, TemporalQs(d, qs), es)
TAniso(d, qs, es) == Aniso(d, TemporalQs(d, qs), es)

RVec(v)        == TLCEval([i \in 1..Len(v) |-> RInt(v[i])])
RMatVec(A, v)  == TLCEval([i \in 1..Rows(A) |-> RSum([k \in 1..Cols(A) |-> RMul(A[i][k], v[k])], Cols(A))])
RNorm2(v)      == RSum([i \in 1..Len(v) |-> RSq(v[i])], Len(v))
RScale(c, v)   == TLCEval([i \in 1..Len(v) |-> RMul(c, v[i])])

-----------------------------------------------------------------------------
(* documented conventions, stated without SignRule / Order *)
(* right-handed rotation about axis a of 3-space: with (a, b, c) cyclic,
   e_b -> cos e_b + sin e_c,  e_c -> -sin e_b + cos e_c *)
RightHanded3(a, q) ==
  LET b == (a % 3) + 1
      c == (b % 3) + 1
  IN FromCols([k \in 1..3 |->
       IF k = a THEN Unit(3, a)
       ELSE IF k = b THEN [m \in 1..3 |-> IF m = b THEN Cos4(q) ELSE IF m = c THEN Sin4(q) ELSE 0]
       ELSE [m \in 1..3 |-> IF m = c THEN Cos4(q) ELSE IF m = b THEN -Sin4(q) ELSE 0]])

ConventionOK ==
  /\ \A q \in 0..3 :
       \* 2-D: counter-clockwise about z: e_x -> (cos, sin), e_y -> (-sin, cos)
       /\ Rotate(2, <<q>>) = << <<Cos4(q), -Sin4(q)>>, <<Sin4(q), Cos4(q)>> >>
       \* 3-D: yaw about z, pitch about y, roll about x, each right-handed
       /\ Rotate(3, <<q, 0, 0>>) = RightHanded3(3, q)
       /\ Rotate(3, <<0, q, 0>>) = RightHanded3(2, q)
       /\ Rotate(3, <<0, 0, q>>) = RightHanded3(1, q)
  /\ Rotate(2, <<1>>)[2][1] = 1              \* e_x goes to e_y for a quarter turn
  /\ Rotate(1, <<>>) = << <<1>> >>

-----------------------------------------------------------------------------
(* configurations *)
QVecs(d) == IF NoAngles(d) = 0 THEN {<<>>}
            ELSE {qs \in [1..NoAngles(d) -> 0..3] : \A k \in 1..NoAngles(d) : qs[k] \in QSets[k]}
Configs == UNION {{[d |-> d, qs |-> qs, es |-> es] : qs \in QVecs(d), es \in ExpSet[d]} : d \in Dims}

Flat(A)  == TLCEval([n \in 1..(Rows(A) * Cols(A)) |-> A[((n - 1) \div Cols(A)) + 1][((n - 1) % Cols(A)) + 1]])
FlatQ4(A) == TLCEval([n \in 1..(Rows(A) * Cols(A)) |-> Q4(A[((n - 1) \div Cols(A)) + 1][((n - 1) % Cols(A)) + 1])])

(* test matrix: the unit vectors followed by the test positions, as columns *)
XMat(d) == FromCols([k \in 1..(d + Len(XPts[d])) |-> IF k <= d THEN Unit(d, k) ELSE XPts[d][k - d]])

EffQs(c)  == IF Mode = "tmp" THEN TemporalQs(c.d, c.qs) ELSE c.qs

(* ---- the clauses of C12, as predicates of one configuration ------------- *)
(* R = Rotate, DR = Derotate, I = Iso, A = Aniso of the configuration; they are
   passed in so that TLC evaluates each of them once per configuration *)

InverseHolds(d, R, DR, I, A) ==
  /\ RMatMul(I, A) = RId(d)
  /\ RMatMul(A, I) = RId(d)
  /\ IMatMul(DR, R) = Id(d)
  /\ IMatMul(R, DR) = Id(d)

ProperOrthogonalHolds(d, R, DR) ==
  /\ IMatMul(R, Transpose(R)) = Id(d)
  /\ IMatMul(Transpose(R), R) = Id(d)
  /\ Det(R) = 1
  /\ DR = Transpose(R)

(* a dim-n angle vector padded with zeros acts on the first n axes only *)
EmbeddingHolds(d, qs, R) ==
  d < 4 => LET pad == TLCEval([k \in 1..NoAngles(d + 1) |-> IF k <= NoAngles(d) THEN qs[k] ELSE 0])
           IN Rotate(d + 1, pad) = BlockDiag1(R)

(* along main axis i a vector of length L = 2^l has isotropic radius L / anis[i-1]
   (L for the first axis): Iso maps it to (L / ratio_i) e_i; and the point at
   distance L * anis[i-1] along axis i has isotropic radius L *)
MainAxisScaleHolds(d, es, axes, I) ==
  \A i \in 1..d : \A l \in LenExp :
    LET ax == RVec(axes[i])
        w  == RMatVec(I, RScale(Pow2(l), ax))
        r  == RMul(Pow2(l), RInv(Ratio(es, i)))
    IN /\ w = [k \in 1..d |-> IF k = i THEN r ELSE <<0, 1>>]
       /\ RNorm2(w) = RSq(r)
       /\ RMatVec(I, RScale(RMul(Pow2(l), Ratio(es, i)), ax))
            = [k \in 1..d |-> IF k = i THEN Pow2(l) ELSE <<0, 1>>]

(* "tmp": I, A are TIso, TAniso of the REQUESTED angles c.qs: the time axis is only
   divided by the last ratio, never mixed with space, and the spatial block is the
   (d-1)-dimensional transformation of the spatial angles and ratios *)
TimeAxisHolds(d, qs, es, I, A) ==
    LET sq == TLCEval([k \in 1..NoAngles(d - 1) |-> qs[k]])
        se == TLCEval([k \in 1..(d - 2) |-> es[k]])
        SI == Iso(d - 1, sq, se)
        SA == Aniso(d - 1, sq, se)
    IN /\ I[d][d] = RInv(Pow2(es[d - 1])) /\ A[d][d] = Pow2(es[d - 1])
       /\ \A j \in 1..(d - 1) : I[d][j] = <<0, 1>> /\ I[j][d] = <<0, 1>>
                                /\ A[d][j] = <<0, 1>> /\ A[j][d] = <<0, 1>>
       /\ \A i, j \in 1..(d - 1) : I[i][j] = SI[i][j] /\ A[i][j] = SA[i][j]

Compute(c) ==
  LET d   == c.d
      qs  == EffQs(c)
      R   == Rotate(d, qs)
      DR  == Derotate(d, qs)
      I   == Iso(d, qs, c.es)
      A   == Aniso(d, qs, c.es)
      ax  == MainAxes(d, qs)
      X   == ToR(XMat(d))
      IX  == RMatMul(I, X)
  IN [ eqs   |-> qs,                           \* effective angles ("tmp": space-time planes zeroed)
       rot   |-> Flat(R),                      \* d x d integers
       derot |-> Flat(DR),
       axes  |-> Flat(ax),                     \* row i = main axis i
       isoX  |-> FlatQ4(IX),                   \* d x (d+n), units of 1/4:  Iso * [I | X]
       anisoX |-> FlatQ4(RMatMul(A, X)),       \* Aniso * [I | X]
       \* squared isotropic radius of each test position, units of 1/16
       rad2  |-> TLCEval([n \in 1..Len(XPts[d]) |->
                    LET r == RNorm2(Col(IX, d + n)) IN
                    IF (16 * r[1]) % r[2] = 0 THEN (16 * r[1]) \div r[2]
                    ELSE Assert(FALSE, <<"rad2", r>>)]),
       chk   |-> [ inverse   |-> InverseHolds(d, R, DR, I, A),
                   proper    |-> ProperOrthogonalHolds(d, R, DR),
                   embedding |-> EmbeddingHolds(d, qs, R),
                   mainaxis  |-> MainAxisScaleHolds(d, c.es, ax, I),
                   \* pipelines work on Iso.x; what they hand to user functions of the ORIGINAL
                   \* coordinates (drift functions of universal kriging) is Aniso.(Iso.x) = x
                   drift     |-> RMatMul(A, IX) = X,
                   timeaxis  |-> IF Mode = "tmp" THEN TimeAxisHolds(d, c.qs, c.es, I, A) ELSE TRUE ] ]

(* "giv": the elementary rotations themselves (one plane, one angle) *)
GivConfigs == {c \in [d : Dims, k : 1..6, q : 0..3] : c.k <= NoAngles(c.d)}
GivCompute(c) ==
  LET single == TLCEval([m \in 1..NoAngles(c.d) |-> IF m = c.k THEN c.q ELSE 0])
  IN [ giv   |-> Flat(Givens(c.d, Planes(c.d)[c.k], c.q)),
       plane |-> Planes(c.d)[c.k],
       noa   |-> NoAngles(c.d),
       rot   |-> Flat(Rotate(c.d, single)),        \* the k-th model angle alone
       chk   |-> [ convention |-> ConventionOK,
                   \* the k-th angle alone is the elementary rotation of plane k with the sign rule
                   single     |-> Rotate(c.d, single) = Givens(c.d, Planes(c.d)[c.k], SQ(c.k, c.q)) ] ]

Init == /\ cfg \in (IF Mode = "giv" THEN GivConfigs ELSE Configs)
        /\ out = IF Mode = "giv" THEN GivCompute(cfg) ELSE Compute(cfg)
Next == UNCHANGED vars

-----------------------------------------------------------------------------
(* invariants: every clause holds for every configuration *)
InverseOK        == out.chk.inverse
ProperOrthogonal == out.chk.proper
EmbeddingOK      == out.chk.embedding
MainAxisScaleOK  == out.chk.mainaxis
TimeAxisOK       == out.chk.timeaxis
DriftCoordsOK    == out.chk.drift

GivOK            == out.chk.convention /\ out.chk.single

TypeOK == /\ cfg.d \in Dims
          /\ \A n \in 1..Len(out.rot) : out.rot[n] \in {-1, 0, 1}
=============================================================================
