----------------------------- MODULE AliasMatrix -----------------------------
(***************************************************************************)
(* C20, part B: the matrix of public entry points x argument role x array  *)
(* layout x option set.  Every public call first converts its array        *)
(* arguments (asarray(dtype = double), reshape, ma.array): whether the     *)
(* converted array still aliases the caller's memory depends only on the   *)
(* layout; whether arithmetic is then performed on it depends on the       *)
(* options.  IDEAL: a write may only reach memory that is not reachable    *)
(* from a caller argument, i.e. an aliasing conversion must be followed by *)
(* a copy before any in-place step.  TLC enumerates the whole matrix as    *)
(* one-step behaviours and classifies each cell: `risky` cells are those   *)
(* where a missing copy is observable.  Every cell is executed on the real *)
(* code with sentinel arrays compared byte-wise before and after.          *)
(***************************************************************************)
EXTENDS Integers, FiniteSets, TLC

CONSTANTS EntryTable,   \* entry -> [roles : set of role names, opts : set of option names, inplace : set of option names]
          Layouts       \* array layouts of the caller argument under test

VARIABLES pick, phase, copied

vars == <<pick, phase, copied>>

(* conversion by asarray(dtype = double) / reshape keeps the caller's memory for these layouts *)
Aliasing(l) == l \in {"f64c", "strided", "masked"}

Cells == UNION {{[entry |-> e, role |-> r, layout |-> l, opts |-> o] :
                   r \in EntryTable[e].roles, l \in Layouts, o \in SUBSET EntryTable[e].opts} :
                e \in DOMAIN EntryTable}

Risky(c) == Aliasing(c.layout) /\ (c.opts \cap EntryTable[c.entry].inplace) # {}

Init == pick \in Cells /\ phase = "chosen" /\ copied = FALSE

(* the implementation obligation: copy before the first in-place step on aliased memory *)
Convert == /\ phase = "chosen" /\ phase' = "converted"
           /\ copied' = ~Aliasing(pick.layout)      \* a converting layout yields private memory
           /\ UNCHANGED pick
CopyStep == /\ phase = "converted" /\ ~copied /\ Risky(pick)
            /\ copied' = TRUE /\ UNCHANGED <<pick, phase>>
Compute == /\ phase = "converted" /\ (Risky(pick) => copied)
           /\ phase' = "done" /\ UNCHANGED <<pick, copied>>

Next == Convert \/ CopyStep \/ Compute
Spec == Init /\ [][Next]_vars

(* no write reaches caller memory *)
NoForeignWrite == (phase = "done" /\ Risky(pick)) => copied
=============================================================================
