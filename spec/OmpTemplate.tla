--------------------------- MODULE OmpTemplate ---------------------------
(***************************************************************************)
(* Semantics of an OpenMP parallel region as Cython generates it for       *)
(* `prange` (C15, schedules).  The program itself is NOT written here: it  *)
(* is extracted at check time from the current .pyx by harness/pyx (loop    *)
(* nests, index expressions, private/shared classification) and emitted as *)
(* a module Omp_<kernel> that EXTENDS this one and defines the constants    *)
(* Program / PrivProgram / WsPriv from the source's own index expressions. *)
(*                                                                         *)
(* Program = sequence of phases.  A phase is                               *)
(*   [all   |-> events every thread executes (code of the parallel block   *)
(*              outside a worksharing loop: executed redundantly),         *)
(*    iters |-> one event sequence per iteration of the worksharing loop,  *)
(*    ws    |-> TRUE iff the phase contains a worksharing loop (=> implicit*)
(*              barrier at its end; there is no barrier at its beginning)].*)
(* An event is one access to SHARED memory (array cells; scalars assigned  *)
(* in the region are thread private and never appear here):                *)
(*   [op |-> "R" | "W", cell, id, aug, new]                                *)
(* `a[c] += v` is the two events R(c), W(c, aug); `new` marks the first    *)
(* event of a source statement.  A written value is the sequence of the    *)
(* contributions accumulated into the cell, each contribution carrying the *)
(* values the statement read -- so "same final memory" means "same float   *)
(* operations in the same order", i.e. bit-identical results.              *)
(*                                                                         *)
(* Schedules: an idle thread takes ANY iteration of the current            *)
(* worksharing loop that nobody has taken yet.  This covers every          *)
(* assignment of iterations to threads (static, dynamic, guided, any chunk *)
(* size, monotonic or not).  Every shared access is one TLC step, so all   *)
(* interleavings are explored.                                             *)
(***************************************************************************)
EXTENDS Integers, Sequences, FiniteSets, TLC

CONSTANTS T,            \* number of threads
          Program,      \* see above
          PrivProgram,  \* same phase structure, events [op |-> "PR"|"PW", v |-> scalar name]
          WsPriv        \* scalars assigned inside a worksharing body (lastprivate/reduction)

VARIABLES mem,     \* cell -> value (sequence of contributions)
          hist,    \* cell -> sequence of all contributions ever stored (history variable)
          th,      \* thread -> [ph, stage, it, pc, tmp]
          taken,   \* iterations of the current worksharing loop already handed out
          acc,     \* accesses since the last barrier: set of [t, cell, w]
          k        \* constants evaluated once in Init (TLC would re-expand the generated
                   \* definitions in every state): [prog, serial, privok]

vars == <<mem, hist, th, taken, acc, k>>

Threads == 1..T

RECURSIVE Flat(_)
Flat(ss) == IF ss = <<>> THEN <<>> ELSE Head(ss) \o Flat(Tail(ss))

\* lo..hi-1 style loops: the emitter writes  Loop(lo, hi, LAMBDA v: body)
Loop(lo, hi, Body(_)) == [x \in 1..(IF hi > lo THEN hi - lo ELSE 0) |-> Body(lo + x - 1)]

\* a source statement = its events, the first one marked `new`
Stmt(evs) == [i \in 1..Len(evs) |-> [evs[i] EXCEPT !.new = (i = 1)]]
Ev(op, cell, id, aug) == [op |-> op, cell |-> cell, id |-> id, aug |-> aug, new |-> FALSE]
Pv(op, v) == [op |-> op, v |-> v]
Phase(all, iters, ws) == [all |-> all, iters |-> iters, ws |-> ws]

SerialEvents(P) == Flat([p \in 1..Len(P) |-> P[p].all \o Flat(P[p].iters)])
CellsOf(evs) == {evs[i].cell : i \in 1..Len(evs)}

(* one shared access; pure function of (memory, history, statement-local reads) *)
Apply(m, h, tmp, ev) ==
  LET t0 == IF ev.new THEN <<>> ELSE tmp IN
  IF ev.op = "R"
  THEN [mem |-> m, hist |-> h, tmp |-> Append(t0, m[ev.cell])]
  ELSE LET ins  == IF ev.aug THEN SubSeq(t0, 1, Len(t0) - 1) ELSE t0
           base == IF ev.aug THEN t0[Len(t0)] ELSE <<>>
           c    == [id |-> ev.id, ins |-> ins]
       IN [mem  |-> [m EXCEPT ![ev.cell] = Append(base, c)],
           hist |-> [h EXCEPT ![ev.cell] = Append(@, c)],
           tmp  |-> <<>>]

RECURSIVE RunSerial(_, _)
RunSerial(st, evs) == IF evs = <<>> THEN st ELSE RunSerial(Apply(st.mem, st.hist, st.tmp, Head(evs)), Tail(evs))

(* the serial program: phases in order, `all` once, iterations in index order *)
SerialOf(P) == LET evs == SerialEvents(P)
                   e0  == [c \in CellsOf(evs) |-> <<>>]
               IN RunSerial([mem |-> e0, hist |-> e0, tmp |-> <<>>], evs)

---------------------------------------------------------------------------
(* thread-private scalars: no iteration of a worksharing loop reads a       *)
(* private (lastprivate / reduction) scalar before writing it -- otherwise  *)
(* a value would be carried between iterations, which a parallel schedule   *)
(* does not preserve.  Independent of the interleaving: evaluated once.     *)
RECURSIVE ScanOK(_, _)
ScanOK(s, init) ==
  IF s = <<>> THEN TRUE
  ELSE LET e == Head(s) IN
       IF e.op = "PR" THEN e.v \in init /\ ScanOK(Tail(s), init)
       ELSE ScanOK(Tail(s), init \cup {e.v})

Written(s) == {s[i].v : i \in {j \in 1..Len(s) : s[j].op = "PW"}}

RECURSIVE PhasesOK(_, _)
PhasesOK(ps, init) ==
  IF ps = <<>> THEN TRUE
  ELSE LET p == Head(ps)
           a == init \cup Written(p.all)
       IN /\ ScanOK(p.all, init)
          /\ \A i \in 1..Len(p.iters) : ScanOK(p.iters[i], a \ WsPriv)
          /\ PhasesOK(Tail(ps), IF Len(p.iters) > 0 THEN a \cup WsPriv ELSE a)

---------------------------------------------------------------------------
RECURSIVE EnterPhase(_, _)
EnterPhase(P, p) ==
  IF p > Len(P) THEN [ph |-> p, stage |-> "end"]
  ELSE IF Len(P[p].all) > 0 THEN [ph |-> p, stage |-> "all"]
  ELSE IF P[p].ws THEN [ph |-> p, stage |-> "ws"]
  ELSE EnterPhase(P, p + 1)

Fresh(P, p) == LET e == EnterPhase(P, p) IN [ph |-> e.ph, stage |-> e.stage, it |-> 0, pc |-> 1, tmp |-> <<>>]

Init ==
  /\ k = [prog |-> Program, serial |-> SerialOf(Program), privok |-> PhasesOK(PrivProgram, {})]
  /\ mem = [c \in DOMAIN k.serial.mem |-> <<>>]
  /\ hist = mem
  /\ th = [t \in Threads |-> Fresh(k.prog, 1)]
  /\ taken = {}
  /\ acc = {}

Access(t, ev) == [t |-> t, cell |-> ev.cell, w |-> (ev.op = "W")]

(* code of the parallel block outside the worksharing loop: every thread runs it *)
ExecAll(t) ==
  LET s == th[t]  evs == k.prog[s.ph].all IN
  /\ s.stage = "all"
  /\ LET ev == evs[s.pc]  r == Apply(mem, hist, s.tmp, ev) IN
     /\ mem' = r.mem /\ hist' = r.hist
     /\ acc' = acc \cup {Access(t, ev)}
     /\ th' = [th EXCEPT ![t] =
                IF s.pc < Len(evs) THEN [s EXCEPT !.pc = s.pc + 1, !.tmp = r.tmp]
                ELSE IF k.prog[s.ph].ws THEN [s EXCEPT !.stage = "ws", !.pc = 1, !.tmp = <<>>]
                ELSE Fresh(k.prog, s.ph + 1)]
  /\ UNCHANGED <<taken, k>>

(* an idle thread takes any iteration not handed out yet *)
Take(t) ==
  LET s == th[t] IN
  /\ s.stage = "ws" /\ s.it = 0
  /\ \E i \in (1..Len(k.prog[s.ph].iters)) \ taken :
       /\ taken' = taken \cup {i}
       /\ th' = [th EXCEPT ![t] = IF Len(k.prog[s.ph].iters[i]) = 0 THEN s
                                   ELSE [s EXCEPT !.it = i, !.pc = 1, !.tmp = <<>>]]
  /\ UNCHANGED <<mem, hist, acc, k>>

ExecIter(t) ==
  LET s == th[t] IN
  /\ s.stage = "ws" /\ s.it # 0
  /\ LET evs == k.prog[s.ph].iters[s.it]  ev == evs[s.pc]  r == Apply(mem, hist, s.tmp, ev) IN
     /\ mem' = r.mem /\ hist' = r.hist
     /\ acc' = acc \cup {Access(t, ev)}
     /\ th' = [th EXCEPT ![t] = IF s.pc < Len(evs) THEN [s EXCEPT !.pc = s.pc + 1, !.tmp = r.tmp]
                                 ELSE [s EXCEPT !.it = 0, !.pc = 1, !.tmp = <<>>]]
  /\ UNCHANGED <<taken, k>>

(* nothing left to take: wait at the implicit barrier of the worksharing loop *)
Arrive(t) ==
  LET s == th[t] IN
  /\ s.stage = "ws" /\ s.it = 0
  /\ taken = 1..Len(k.prog[s.ph].iters)
  /\ th' = [th EXCEPT ![t].stage = "wait"]
  /\ UNCHANGED <<mem, hist, taken, acc, k>>

Barrier ==
  /\ \A t \in Threads : th[t].stage = "wait"
  /\ th' = [t \in Threads |-> Fresh(k.prog, th[t].ph + 1)]
  /\ taken' = {}
  /\ acc' = {}
  /\ UNCHANGED <<mem, hist, k>>

Next ==
  \/ \E t \in Threads : ExecAll(t) \/ Take(t) \/ ExecIter(t) \/ Arrive(t)
  \/ Barrier

Spec == Init /\ [][Next]_vars

Done == \A t \in Threads : th[t].stage = "end"

---------------------------------------------------------------------------
(* C15: no data race -- between two barriers no cell is accessed by two     *)
(* different threads unless both accesses are reads                         *)
RaceFree ==
  \A a \in acc : \A b \in acc :
     (a.t # b.t /\ a.cell = b.cell) => (~a.w /\ ~b.w)

IsPrefix(s, r) == Len(s) <= Len(r) /\ SubSeq(r, 1, Len(s)) = s

(* the contributions stored into every cell appear in the serial order, each *)
(* computed from the values the serial program reads                         *)
OrderDeterministic == \A c \in DOMAIN hist : IsPrefix(hist[c], k.serial.hist[c])

(* the region ends with the memory of the serial program *)
SerialEquivalent == Done => (mem = k.serial.mem /\ hist = k.serial.hist)

(* see ScanOK / PhasesOK above *)
PrivatesInitialised == k.privok
=============================================================================
