------------------------------ MODULE Generator ------------------------------
(***************************************************************************)
(* Seeded field generation through gstools.SRF (properties C11 and C17).   *)
(*                                                                         *)
(* Two layers in one module:                                               *)
(*  - the IDEAL layer: the public settings (model parameters as the user   *)
(*    sees them, seed value, mode number, period).  A Call must return     *)
(*    V(want, x) for one fixed function V of the settings `want` and the   *)
(*    location: calls with equal `want` agree, whatever happened before.   *)
(*  - the CODE-SHAPED layer: the hidden state of RandMeth / Fourier        *)
(*    (private model copy, provenance tags of z_1/z_2, of the spectral     *)
(*    samples, of delta_k, of the mode mesh, of the spectrum factor, the   *)
(*    position of the nugget noise stream), transcribed branch by branch   *)
(*    from generator.py, kept in two copies "A" and "B" that differ only   *)
(*    in the identity of the seed objects they are handed (A: one shared   *)
(*    object per value, B: a fresh object every time).                     *)
(* Invariants: Coherent (at every Call each derived datum was computed     *)
(* from the settings now in force), Periodic (Fourier: phase change under  *)
(* a shift by the period along a main axis is a multiple of 2 pi),         *)
(* IdentityIrrelevant (copies A and B are indistinguishable).              *)
(***************************************************************************)
EXTENDS Integers, Sequences, FiniteSets, TLC

CONSTANTS
  Kind,         \* "RandMeth" | "Fourier"
  SeedVals,     \* seed values
  SmallSeeds,   \* subset of SeedVals that CPython interns (identity = equality)
  VarVals, LenVals, AnisVals, AngVals, NugVals,   \* model parameter domains (tokens / exponents)
  ModeNos,      \* mode numbers
  Periods,      \* period tokens (Fourier)
  SeedCompare,  \* "value" (code after the fix) | "identity" (`is not`, the defect)
  MaxDraws,     \* the position of the nugget stream saturates here (keeps the model finite)
  InitModels,   \* models at construction
  UpdModels,    \* models handed over by the combined generator.update(model, period, mode_no) action
  DkRefresh,    \* TRUE: Fourier.update recomputes delta_k / modes when the model changed (after the fix)
  RefusedAtomic \* TRUE: a refused Fourier.update leaves the generator untouched (code after the repair);
                \* FALSE: period / delta_k are overwritten before the odd mode number is refused

VARIABLES pm, seed, modeNo, period, op,          \* ideal / public
          gm, sobj, ztag, stag, dk, modes, draws  \* code-shaped, functions on {"A","B"}

ivars == <<pm, seed, modeNo, period>>
hvars == <<gm, sobj, ztag, stag, dk, modes, draws>>
vars  == <<pm, seed, modeNo, period, op, gm, sobj, ztag, stag, dk, modes, draws>>

Copies == {"A", "B"}
Keep == 0                         \* "no seed given" (numpy.nan in the code)
None == [x \in {} |-> 0]
NoModel == [none |-> TRUE]        \* "no model handed over"

Model == [var : VarVals, len : LenVals, anis : AnisVals, ang : AngVals, nug : NugVals]

(* what a Call must correspond to (nugget-free part of the field) *)
Want == [seed |-> seed, var |-> pm.var, len |-> pm.len, anis |-> pm.anis, ang |-> pm.ang,
         modeNo |-> modeNo, period |-> period]

-----------------------------------------------------------------------------
(* code-shaped helpers *)
DkOf(p, m)      == [period |-> p, anis |-> m.anis]
ModesOf(d, n)   == [dk |-> d, modeNo |-> n]

(* seed object handed to copy c for value v: A shares one object per value,
   B creates a fresh one; interned small integers are always the same object *)
SameObject(c, v, stored) == v = stored.val /\ (v \in SmallSeeds \/ (c = "A" /\ stored.shared))
Differs(c, v, stored) == IF SeedCompare = "identity" THEN ~SameObject(c, v, stored) ELSE v # stored.val
NewObj(c, v) == [val |-> v, shared |-> (c = "A")]

(* reset_seed: fresh RNG, new z_1/z_2, new spectral samples resp. spectrum factor *)
ResetTo(c, s, g, d, ms, n) ==
  [sobj  |-> s,
   ztag  |-> [seed |-> s.val, modeNo |-> n],
   stag  |-> IF Kind = "RandMeth" THEN [seed |-> s.val, modeNo |-> n, len |-> g.len, var |-> g.var]
             ELSE [var |-> g.var, len |-> g.len, modes |-> ms, dk |-> d],
   draws |-> 0]
Unchanged(c) == [sobj |-> sobj[c], ztag |-> ztag[c], stag |-> stag[c], draws |-> draws[c]]

(* generator.update(model = public model, seed = s or Keep, period, mode_no) *)
UpdateCopyM(c, m, s, newPeriod, newModeNo) ==     \* m: the model handed to update()
  LET changed == gm[c] # m
      per1 == IF newPeriod # Keep THEN newPeriod ELSE period
      \* delta_k is recomputed when a period is passed (code) or the model changed (after the fix)
      dk1  == IF Kind = "Fourier" /\ (newPeriod # Keep \/ (DkRefresh /\ changed)) THEN DkOf(per1, m) ELSE dk[c]
      n1   == IF newModeNo # Keep THEN newModeNo ELSE modeNo
      ms1  == IF Kind = "Fourier" /\ (newModeNo # Keep \/ newPeriod # Keep \/ (DkRefresh /\ changed))
              THEN ModesOf(dk1, n1) ELSE modes[c]
      g1   == IF changed THEN m ELSE gm[c]
      sNew == IF s = Keep THEN sobj[c] ELSE NewObj(c, s)
      r    == IF changed THEN ResetTo(c, sNew, g1, dk1, ms1, n1)
              ELSE IF s # Keep
                   THEN (IF Differs(c, s, sobj[c]) THEN ResetTo(c, sNew, g1, dk1, ms1, n1) ELSE Unchanged(c))
                   ELSE IF newModeNo # Keep \/ newPeriod # Keep
                        THEN ResetTo(c, sobj[c], g1, dk1, ms1, n1) ELSE Unchanged(c)
  IN [gm |-> g1, dk |-> dk1, modes |-> ms1] @@ r

UpdateCopy(c, s, newPeriod, newModeNo) == UpdateCopyM(c, pm, s, newPeriod, newModeNo)

Apply(f(_)) ==   \* f(c) is the record of new hidden values of copy c
  /\ gm'    = [c \in Copies |-> f(c).gm]
  /\ sobj'  = [c \in Copies |-> f(c).sobj]
  /\ ztag'  = [c \in Copies |-> f(c).ztag]
  /\ stag'  = [c \in Copies |-> f(c).stag]
  /\ dk'    = [c \in Copies |-> f(c).dk]
  /\ modes' = [c \in Copies |-> f(c).modes]
  /\ draws' = [c \in Copies |-> f(c).draws]

-----------------------------------------------------------------------------
(* hidden state of copy c right after construction with the given settings *)
Constructed(c, m, s, n, p) ==
  LET d  == IF Kind = "Fourier" THEN DkOf(p, m) ELSE None
      ms == IF Kind = "Fourier" THEN ModesOf(d, n) ELSE None
  IN [gm |-> m, dk |-> d, modes |-> ms] @@ ResetTo(c, NewObj(c, s), m, d, ms, n)

Init ==
  /\ pm \in InitModels /\ seed \in SeedVals /\ modeNo \in ModeNos
  /\ period \in (IF Kind = "Fourier" THEN Periods ELSE {Keep})
  /\ op = [name |-> "Init"]
  /\ LET f(c) == Constructed(c, pm, seed, modeNo, period)
     IN /\ gm    = [c \in Copies |-> f(c).gm]
        /\ sobj  = [c \in Copies |-> f(c).sobj]
        /\ ztag  = [c \in Copies |-> f(c).ztag]
        /\ stag  = [c \in Copies |-> f(c).stag]
        /\ dk    = [c \in Copies |-> f(c).dk]
        /\ modes = [c \in Copies |-> f(c).modes]
        /\ draws = [c \in Copies |-> f(c).draws]

(* srf(pos, seed = s): update, evaluate, draw nugget noise when the nugget is positive *)
Call(s) ==
  /\ seed' = IF s = Keep THEN seed ELSE s
  /\ UNCHANGED <<pm, modeNo, period>>
  /\ op' = [name |-> "Call", seed |-> s, want |-> Want']
  /\ LET f(c) == LET u == UpdateCopy(c, s, Keep, Keep)
                     d == IF pm.nug > 0 /\ u.draws < MaxDraws THEN u.draws + 1 ELSE u.draws
                 IN [u EXCEPT !.draws = d]
     IN Apply(f)

(* srf.model.<field> = v  (in place) *)
InPlace(fld, v) ==
  /\ pm[fld] # v
  /\ pm' = [pm EXCEPT ![fld] = v]
  /\ op' = [name |-> "InPlace", fld |-> fld, v |-> v]
  /\ UNCHANGED <<seed, modeNo, period>> /\ UNCHANGED hvars

(* srf.model = <new model object> *)
AssignModel(m) ==
  /\ m # pm /\ pm' = m
  /\ op' = [name |-> "AssignModel", m |-> m]
  /\ UNCHANGED <<seed, modeNo, period>> /\ UNCHANGED hvars

(* srf.generator.mode_no = n *)
GenModeNo(n) ==
  /\ modeNo' = n
  /\ op' = [name |-> "GenModeNo", v |-> n]
  /\ IF Kind = "RandMeth"
     THEN LET f(c) == IF n # modeNo
                      THEN [gm |-> gm[c], dk |-> dk[c], modes |-> modes[c]]
                             @@ ResetTo(c, sobj[c], gm[c], dk[c], modes[c], n)
                      ELSE [gm |-> gm[c], dk |-> dk[c], modes |-> modes[c]] @@ Unchanged(c)
          IN Apply(f)
     ELSE \* Fourier: update(mode_no = n) works on the generator's private model copy
          LET f(c) == LET ms == ModesOf(dk[c], n)
                      IN [gm |-> gm[c], dk |-> dk[c], modes |-> ms] @@ ResetTo(c, sobj[c], gm[c], dk[c], ms, n)
          IN Apply(f)
  /\ UNCHANGED <<pm, seed, period>>

(* srf.generator.period = p  (Fourier) *)
GenPeriod(p) ==
  /\ Kind = "Fourier"
  /\ period' = p
  /\ op' = [name |-> "GenPeriod", v |-> p]
  /\ LET f(c) == LET d  == DkOf(p, gm[c])       \* private copy of the model
                     ms == ModesOf(d, modeNo)
                 IN [gm |-> gm[c], dk |-> d, modes |-> ms] @@ ResetTo(c, sobj[c], gm[c], d, ms, modeNo)
     IN Apply(f)
  /\ UNCHANGED <<pm, seed, modeNo>>

(* srf.generator.seed = s *)
GenSeed(s) ==
  /\ seed' = s
  /\ op' = [name |-> "GenSeed", v |-> s]
  /\ LET f(c) == [gm |-> gm[c], dk |-> dk[c], modes |-> modes[c]] @@
                 (IF Differs(c, s, sobj[c]) THEN ResetTo(c, NewObj(c, s), gm[c], dk[c], modes[c], modeNo)
                  ELSE Unchanged(c))
     IN Apply(f)
  /\ UNCHANGED <<pm, modeNo, period>>

(* srf.generator.reset_seed(s) *)
GenReset(s) ==
  /\ seed' = IF s = Keep THEN seed ELSE s
  /\ op' = [name |-> "GenReset", v |-> s]
  /\ LET f(c) == [gm |-> gm[c], dk |-> dk[c], modes |-> modes[c]] @@
                 ResetTo(c, IF s = Keep THEN sobj[c] ELSE NewObj(c, s), gm[c], dk[c], modes[c], modeNo)
     IN Apply(f)
  /\ UNCHANGED <<pm, modeNo, period>>

(* srf.model = <new model>; srf.generator.update(model = srf.model, period = p, mode_no = n)
   several settings handed over in ONE update call (p, n may be Keep) *)
GenUpdate(m, p, n) ==
  /\ m # pm /\ (Kind = "RandMeth" => p = Keep /\ n = Keep)
  /\ pm' = m
  /\ period' = IF p = Keep THEN period ELSE p
  /\ modeNo' = IF n = Keep THEN modeNo ELSE n
  /\ op' = [name |-> "GenUpdate", m |-> m, p |-> p, n |-> n]
  /\ LET f(c) == UpdateCopyM(c, m, Keep, p, n) IN Apply(f)
  /\ UNCHANGED seed

(* a request the Fourier generator refuses (ValueError: odd mode number), caught by the caller
   who then goes on:
     generator.mode_no = <odd>  /  generator.update(mode_no = <odd>[, seed = s])
     generator.update(model = m, period = p, mode_no = <odd>)
   (m may be NoModel, p may be Keep; m is handed to the generator only, srf.model stays).
   Nothing may change: the settings the objects report afterwards are the old ones and the next
   Call must return their field. *)
GenRefused(m, p) ==
  /\ Kind = "Fourier"
  /\ op' = [name |-> "GenRefused", m |-> m, p |-> p]
  /\ IF RefusedAtomic \/ (m = NoModel /\ p = Keep)
     THEN UNCHANGED <<pm, seed, modeNo, period>> /\ UNCHANGED hvars
     ELSE \* code before the repair: `period` and `delta_k` were overwritten before the check
          LET per1 == IF p # Keep THEN p ELSE period
              gmod(c) == IF m # NoModel THEN m ELSE gm[c]
          IN /\ period' = per1
             /\ dk' = [c \in Copies |-> IF p # Keep \/ (DkRefresh /\ m # NoModel /\ m # gm[c])
                                         THEN DkOf(per1, gmod(c)) ELSE dk[c]]
             /\ UNCHANGED <<pm, seed, modeNo, gm, sobj, ztag, stag, modes, draws>>

Next ==
  \/ \E s \in SeedVals \cup {Keep} : Call(s)
  \/ \E v \in VarVals : InPlace("var", v)
  \/ \E v \in LenVals : InPlace("len", v)
  \/ \E v \in AnisVals : InPlace("anis", v)
  \/ \E v \in AngVals : InPlace("ang", v)
  \/ \E v \in NugVals : InPlace("nug", v)
  \/ \E m \in Model : AssignModel(m)
  \/ \E n \in ModeNos : GenModeNo(n)
  \/ \E p \in Periods : GenPeriod(p)
  \/ \E s \in SeedVals : GenSeed(s)
  \/ \E s \in SeedVals \cup {Keep} : GenReset(s)
  \/ \E m \in UpdModels, p \in Periods \cup {Keep}, n \in ModeNos \cup {Keep} : GenUpdate(m, p, n)
  \/ \E m \in UpdModels \cup {NoModel}, p \in Periods \cup {Keep} : GenRefused(m, p)

Spec == Init /\ [][Next]_vars

-----------------------------------------------------------------------------
Calling == op.name = "Call"

(* every derived datum used by this call was computed from the settings in force *)
CoherentCopy(c) ==
  /\ gm[c] = pm
  /\ ztag[c] = [seed |-> seed, modeNo |-> modeNo]
  /\ IF Kind = "RandMeth"
     THEN stag[c] = [seed |-> seed, modeNo |-> modeNo, len |-> pm.len, var |-> pm.var]
     ELSE /\ dk[c] = DkOf(period, pm)
          /\ modes[c] = ModesOf(dk[c], modeNo)
          /\ stag[c] = [var |-> pm.var, len |-> pm.len, modes |-> modes[c], dk |-> dk[c]]
Coherent == Calling => \A c \in Copies : CoherentCopy(c)

(* Fourier: the mode mesh in use is n * 2 pi / period * anisUsed per axis, positions are
   divided by the anisotropy in force; a shift by the period along axis d changes the
   phase of mode n by 2 pi n anisUsed / anisNow: periodic iff the ratios agree *)
Periodic == (Calling /\ Kind = "Fourier") =>
  \A c \in Copies : /\ dk[c].anis = pm.anis /\ dk[c].period = period
                     /\ modes[c].dk.anis = pm.anis /\ modes[c].dk.period = period   \* the mesh actually summed

(* object identity of seeds is not observable *)
IdentityIrrelevant ==
  /\ draws["A"] = draws["B"]
  /\ ztag["A"] = ztag["B"] /\ stag["A"] = stag["B"]
  /\ sobj["A"].val = sobj["B"].val

View == <<pm, seed, modeNo, period, gm, sobj, ztag, stag, dk, modes, draws, op.name>>
=============================================================================
