--------------------------- MODULE KrigeSysChunks ---------------------------
(***************************************************************************)
(* Chunking of the target points (helper of KrigeSys, properties C05):     *)
(* `chunk_size` cuts the n targets into consecutive blocks; the result     *)
(* must not depend on it, so the slices have to partition 0..n-1 in order. *)
(***************************************************************************)
EXTENDS Integers, Sequences, FiniteSets

Chunks(n, cs) ==   \* half open slices <<lo, hi>> of 0..n-1, documented: consecutive blocks of cs points
  LET k == (n + cs - 1) \div cs
  IN [i \in 1..k |-> <<(i - 1) * cs, IF i * cs < n THEN i * cs ELSE n>>]


ChunksPartitionAt(n, cs) ==
  LET ch == Chunks(n, cs)
  IN /\ n = 0 => Len(ch) = 0
     /\ n > 0 => /\ Len(ch) >= 1
                 /\ ch[1][1] = 0
                 /\ ch[Len(ch)][2] = n
     /\ \A i \in 1..Len(ch) : ch[i][1] < ch[i][2] /\ ch[i][2] - ch[i][1] <= cs      \* non-empty, bounded
     /\ \A i \in 1..(Len(ch) - 1) : ch[i][2] = ch[i + 1][1]                          \* ordered, disjoint, gap-free
     /\ \A q \in 0..(n - 1) : Cardinality({i \in 1..Len(ch) : ch[i][1] <= q /\ q < ch[i][2]}) = 1
=============================================================================
