---------------------------- MODULE GeometryHist ----------------------------
(***************************************************************************)
(* Histories of in-place parameter changes on ONE covariance model         *)
(* (C12: the change of coordinates is the one of the CURRENT parameters;   *)
(*  C13, Mode = "tmp": the time axis is never rotated into space, whichever *)
(*  way the angles or the dimension were assigned).                        *)
(*                                                                         *)
(* State: the public geometry parameters cfg = [d, qs, es, l] (dimension,  *)
(* angles in quarter turns, exponents of the ratios, exponent of the main  *)
(* length scale) and out = Geometry!Compute(cfg), the exact transformation *)
(* of the current parameters.  Every action is one public assignment with  *)
(* its documented effect:                                                  *)
(*   SetAnis(s)      anis = s                                              *)
(*   SetAngles(s)    angles = s; for spatio-temporal models the angles of  *)
(*                   the planes containing the time axis are zeroed        *)
(*   SetLenList(s)   len_scale = list: main length scale s[1], the list is *)
(*                   filled up with its last value, ratios s[i] / s[1]     *)
(*   SetLenScalar(v) len_scale = scalar: the ratios stay                   *)
(*   SetDim(n)       ratios cut on the right / filled with 1 on the LEFT,  *)
(*                   angles cut / filled with 0 on the right, then the     *)
(*                   temporal rule                                         *)
(*   Call / CallStored / Refresh / ReadPos   uses of the model and of       *)
(*                   long-lived SRF / Krige objects with stored positions: *)
(*                   nothing changes (UseKeepsState)                       *)
(* Which assignments are made is scripted by the driver (seeded): Scripts  *)
(* is a sequence of [init, ops]; behaviour k executes Scripts[k].ops in    *)
(* order.  TLC computes the effect of each operation and the invariants of *)
(* Geometry in every reached state.                                        *)
(*                                                                         *)
(* In-place changes whose new values are not on the lattice (a variogram   *)
(* fit inside Krige) fall under the same clause and are replayed by the    *)
(* driver as a relation between implementation outputs.                    *)
(***************************************************************************)
EXTENDS Geometry

CONSTANTS Scripts

VARIABLES k, step, op
hvars == <<cfg, out, k, step, op>>

Temporal == Mode = "tmp"

Take(s, n)  == IF Len(s) <= n THEN s ELSE SubSeq(s, 1, n)
FitAnis(d, s) == LET t == Take(s, d - 1) IN [i \in 1..(d - 1 - Len(t)) |-> 0] \o t     \* exponent 0 = ratio 1
FitAng(d, s)  == LET t == Take(s, NoAngles(d)) IN t \o [i \in 1..(NoAngles(d) - Len(t)) |-> 0]
ModelAngles(d, s) == IF Temporal THEN TemporalQs(d, s) ELSE s
Seq0(s) == [i \in 1..Len(s) |-> s[i]]     \* normal form of a sequence

(* Uses: "Call" = evaluate at explicitly given positions (they are stored in the object),
   "CallStored" = evaluate again re-using the stored positions, "Refresh" = Krige.set_condition()
   without arguments, "ReadPos" = read the stored pos / cond_pos.  None of them is an assignment:
   parameters, transformation and (for the driver) the stored position arrays stay what they were,
   so the n-th identical call returns what the first returned. *)
UseOps == {"Call", "CallStored", "Refresh", "ReadPos"}

Apply(c, o) ==
  CASE o.name = "SetAnis" ->
         IF Len(o.s) = c.d - 1 THEN [c EXCEPT !.es = Seq0(o.s)]
         ELSE Assert(FALSE, <<"SetAnis: wrong length", c, o>>)
    [] o.name = "SetAngles" ->
         IF Len(o.s) = NoAngles(c.d) THEN [c EXCEPT !.qs = Seq0(ModelAngles(c.d, o.s))]
         ELSE Assert(FALSE, <<"SetAngles: wrong length", c, o>>)
    [] o.name = "SetLenList" ->
         IF Len(o.s) >= 2 /\ Len(o.s) <= c.d
         THEN LET full == [i \in 1..c.d |-> IF i <= Len(o.s) THEN o.s[i] ELSE o.s[Len(o.s)]]
              IN [c EXCEPT !.l = full[1], !.es = [i \in 1..(c.d - 1) |-> full[i + 1] - full[1]]]
         ELSE Assert(FALSE, <<"SetLenList: wrong length", c, o>>)
    [] o.name = "SetLenScalar" -> [c EXCEPT !.l = o.v]
    [] o.name = "SetDim" ->
         [c EXCEPT !.d = o.v, !.es = Seq0(FitAnis(o.v, c.es)),
                   !.qs = Seq0(ModelAngles(o.v, FitAng(o.v, c.qs)))]
    \* uses of the model and of long-lived objects holding stored positions: no parameter changes
    [] o.name \in UseOps -> c
    [] OTHER -> Assert(FALSE, <<"unknown operation", o>>)

NoOp == [name |-> "Init", s |-> <<>>, v |-> 0]

HInit == /\ k \in 1..Len(Scripts)
         /\ step = 0
         /\ op = NoOp
         /\ cfg = [Scripts[k].init EXCEPT !.qs = Seq0(ModelAngles(Scripts[k].init.d, Scripts[k].init.qs))]
         /\ out = Compute(cfg)

HNext == /\ step < Len(Scripts[k].ops)
         /\ step' = step + 1
         /\ k' = k
         /\ op' = Scripts[k].ops[step + 1]
         /\ cfg' = Apply(cfg, op')
         /\ out' = Compute(cfg')

UseKeepsState == [][op'.name \in UseOps => (cfg' = cfg /\ out' = out)]_hvars

(* besides the invariants of Geometry (InverseOK, ..., TimeAxisOK on the current parameters):
   a time axis is never rotated, whatever was assigned *)
TimeNeverRotated ==
  Temporal => \A n \in 1..NoAngles(cfg.d) : n > NoAngles(cfg.d - 1) => cfg.qs[n] = 0
ShapeOK == Len(cfg.qs) = NoAngles(cfg.d) /\ Len(cfg.es) = cfg.d - 1 /\ out.eqs = cfg.qs
=============================================================================
