-------------------------------- MODULE Alias --------------------------------
(***************************************************************************)
(* C20: operations never modify caller arrays or previously stored /       *)
(* returned results.                                                       *)
(*                                                                         *)
(* Part A (FieldHeap): the storage discipline of a Field / SRF object as   *)
(* an alias heap.  Buffers have a content version; `stored` binds names to *)
(* buffers, `handed` is the set of <<buffer, version>> pairs the caller    *)
(* holds (arrays passed in and arrays returned earlier).  Every public     *)
(* operation is a short program over the primitive steps New, Bind and     *)
(* Write.  IDEAL: no operation ever Writes to a buffer the caller holds or *)
(* that is stored under another name (EarlierResultsStable,                *)
(* NoForeignWrite).  The switch `InPlacePipeline` re-enables the           *)
(* code-shaped behaviour found in the tree before the repair (mean / trend *)
(* arithmetic performed in place on the input of the pre/post-processing   *)
(* pipeline) so that TLC demonstrates the violation.                       *)
(*                                                                         *)
(* Part B is the module AliasMatrix.                                       *)
(***************************************************************************)
EXTENDS Integers, Sequences, FiniteSets, TLC

CONSTANTS Names,            \* storage names, e.g. {"field", "f2"}
          MaxBuf,           \* bound on the number of buffers
          HasPipeline,      \* the field object carries a mean / trend / normalizer
          NormalField,      \* constant mean, no trend, default normalizer: the object holds a plain normal field
          TKinds,           \* transformations offered by Field.transform
          NormalKinds,      \* those that require a normal field unless they process the field themselves
          InPlacePipeline   \* TRUE: pre/post-processing arithmetic writes into its input (the defect)

VARIABLES heap,     \* buffer id -> version
          stored,   \* name -> buffer id (0 = unbound)
          handed,   \* set of <<buffer, version>> the caller holds
          nbuf, op, target   \* target: buffer the last operation was allowed to replace

vars == <<heap, stored, handed, nbuf, op, target>>

None == 0
Bufs == 1..MaxBuf

Init ==
  /\ heap = [b \in Bufs |-> 0] /\ stored = [n \in Names |-> None]
  /\ handed = {} /\ nbuf = 0 /\ op = [name |-> "Init"] /\ target = None

New == nbuf + 1

(* srf(pos, store = n | FALSE): a new array is created, stored under n and returned *)
Generate(n) ==
  /\ nbuf < MaxBuf /\ nbuf' = New
  /\ stored' = IF n = "none" THEN stored ELSE [stored EXCEPT ![n] = New]
  /\ handed' = handed \cup {<<New, heap[New]>>}
  /\ target' = None
  /\ op' = [name |-> "Generate", store |-> n]
  /\ UNCHANGED heap

(* field(pos, field = callerArray, post_process = p, store = n): the caller's array is handed in *)
FieldCall(n, p) ==
  /\ nbuf + 1 < MaxBuf
  /\ LET arr == New
         outb == New + 1
         \* post-processing (add mean, denormalise, add trend) writes into its input when InPlacePipeline
         wr == p /\ HasPipeline /\ InPlacePipeline
     IN /\ nbuf' = outb
        /\ heap' = IF wr THEN [heap EXCEPT ![arr] = @ + 1] ELSE heap
        /\ stored' = IF n = "none" THEN stored ELSE [stored EXCEPT ![n] = outb]
        /\ handed' = handed \cup {<<arr, heap[arr]>>, <<outb, heap[outb]>>}
  /\ target' = None
  /\ op' = [name |-> "FieldCall", store |-> n, process |-> p]

(* srf.transform(k, field = src, store = TRUE | n | FALSE, process = p); all kinds have the same
   storage discipline (a new array is computed from the source), they differ in their precondition *)
Transform(src, st, p, k) ==
  /\ stored[src] # None /\ nbuf < MaxBuf
  /\ (k \in NormalKinds /\ ~p => NormalField)
  /\ LET inb == stored[src]
         outb == New
         dest == IF st = "same" THEN src ELSE st
         \* pre-processing (remove trend, normalise, remove mean) writes into its input when InPlacePipeline
         wr == p /\ HasPipeline /\ InPlacePipeline
     IN /\ nbuf' = outb
        /\ heap' = IF wr THEN [heap EXCEPT ![inb] = @ + 1] ELSE heap
        /\ stored' = IF st = "none" THEN stored ELSE [stored EXCEPT ![dest] = outb]
        /\ handed' = handed \cup {<<outb, heap[outb]>>}
        /\ target' = IF st = "same" THEN inb ELSE None
  /\ op' = [name |-> "Transform", src |-> src, store |-> st, process |-> p, kind |-> k]

Next ==
  \/ \E n \in Names \cup {"none"} : Generate(n)
  \/ \E n \in Names \cup {"none"}, p \in BOOLEAN : FieldCall(n, p)
  \/ \E src \in Names, st \in Names \cup {"same", "none"}, p \in BOOLEAN, k \in TKinds : Transform(src, st, p, k)

Spec == Init /\ [][Next]_vars

(* nothing the caller holds changes, except the array that a transformation with
   store = True was asked to replace *)
EarlierResultsStable ==
  \A h \in handed : heap[h[1]] = h[2] \/ h[1] = target
NoForeignWrite == [][\A b \in Bufs : heap'[b] # heap[b] => b = target']_vars

=============================================================================
