------------------------------ MODULE Spectral ------------------------------
(***************************************************************************)
(* C04, the part of it that is decidable without numerical integration:    *)
(* the dimensional analysis of the spectral functions of a covariance      *)
(* model and the algebraic relations between them.                         *)
(*                                                                         *)
(* A case is (model class, dimension d, length unit 2^e, wave number index *)
(* j).  The wave number is kappa_j / len in the unit of the case, kappa_j   *)
(* a fixed dimensionless lattice value (kappa_0 = 0).  TLC enumerates the   *)
(* cases and computes, for each function the model offers, by which power   *)
(* of two its value differs from the value of the SAME function in unit 1   *)
(* at the same dimensionless wave number, and which algebraic identities    *)
(* tie the functions together at that wave number:                          *)
(*                                                                         *)
(*   density(kappa/(len 2^e); len 2^e) = 2^(e d) density(kappa/len; len)    *)
(*   spectrum                          = var x density (same power)         *)
(*   rad_pdf(kappa/(len 2^e); len 2^e) = 2^e rad_pdf(kappa/len; len)        *)
(*   rad_cdf is dimensionless (power 0), rad_ppf(p) scales with 2^(-e)      *)
(*   rad_pdf = S_d(k) x density, S_1 = 2, S_2 = 2 pi k, S_3 = 4 pi k^2      *)
(*            (in particular 0 at k = 0 for d > 1, and 2 x density for d=1) *)
(*   a truncated power law on [low, up] is the difference of the laws on    *)
(*   [0, up] and [0, low] weighted with up^2H, low^2H (also for the density) *)
(*   the way the object got its parameters (assignments) is not observable  *)
(*   ppf(cdf(k)) = k,  d cdf / dk = rad_pdf (central difference),           *)
(*   cdf -> 1 for k -> infinity (where a cdf is offered)                    *)
(*                                                                         *)
(* Powers of two are exact in binary floating point, so the driver can      *)
(* demand the scaled values to agree to rounding of the last operation.     *)
(* The Fourier-pair clause is decided pointwise in unit 1 (fields kernel,    *)
(* twoPiPow, fourierAt of Expect) by adaptive quadrature of the             *)
(* implementation's own correlation, only where the quadrature certifies    *)
(* its error; not covered: that the pdf integrates to 1 for classes        *)
(* without a cdf, and classes with an oscillating correlation (JBessel).    *)
(***************************************************************************)
EXTENDS Integers, FiniteSets, TLC

CONSTANTS Classes,     \* model class tokens
          Dims,        \* 1..3
          UnitExps,    \* exponents e of the length unit 2^e
          KIdx,        \* indices of the dimensionless wave number lattice (0 = origin)
          Routes,      \* how the model object came to its parameters: "direct" construction, or another dimension /
                       \* length scale / rescale factor first and the final value assigned afterwards
          TPLFamily,   \* truncated power law classes with a lower truncation
          HasCdf,      \* [class -> set of dims in which spectral_rad_cdf is offered]
          HasPpf       \* [class -> set of dims in which spectral_rad_ppf is offered]

VARIABLES case, expect

vars == <<case, expect>>

Cases == [cls : Classes, d : Dims, e : UnitExps, j : KIdx, route : Routes]

(* exponent of the surface factor S_d(k) in k: S_d ~ k^(d-1) *)
SurfPow(d) == d - 1

Expect(c) ==
  [ densityPow  |-> c.e * c.d,                 \* density / spectrum: length^d
    radPdfPow   |-> c.e,                       \* k^(d-1) x length^d  ->  2^(-e(d-1)) 2^(e d)
    cdfPow      |-> 0,
    ppfPow      |-> -c.e,
    pdfAtOrigin |-> IF c.j = 0 THEN (IF c.d = 1 THEN "twice-density" ELSE "zero") ELSE "surface-x-density",
    cdfAtOrigin |-> IF c.j = 0 THEN "zero" ELSE "in-(0,1)",
    cdfSlope    |-> IF c.j = 0 THEN "not-compared" ELSE "rad-pdf",      \* the cdf is the integral of the pdf
    cdfAtInf    |-> "one",                                              \* ... and the pdf is normalised
    sameAs      |-> [c EXCEPT !.route = "direct"],        \* the route is not observable: values of the directly built model
    \* the Fourier-pair clause itself: density(k) = (2 pi)^twoPiPow x int_0^inf cor(r) kernel_d(k, r) dr with the radial
    \* kernel of dimension d (cos(kr); r J0(kr) x 2 pi / 2 ...; see drivers/spectral.py forward()); decided in unit 1 on
    \* directly built models only - the unit and route relations above carry it to every other case
    kernel      |-> CASE c.d = 1 -> "cos" [] c.d = 2 -> "bessel-j0" [] OTHER -> "sinc",
    twoPiPow    |-> -c.d,
    fourierAt   |-> c.e = 0 /\ c.route = "direct",
    tplParts    |-> c.cls \in TPLFamily,                 \* density of [low, up] = weighted difference of the densities of [0, up], [0, low]
    checkCdf    |-> c.d \in HasCdf[c.cls],
    checkPpf    |-> c.d \in HasPpf[c.cls] /\ c.d \in HasCdf[c.cls] ]

Init == case \in Cases /\ expect = Expect(case)
Next == UNCHANGED vars
Spec == Init /\ [][Next]_vars

(* sanity of the dimensional analysis itself: the radial pdf is a density in k, so
   pdf dk is dimensionless: its power and the power of the wave number cancel *)
PdfIsDensity == expect.radPdfPow + (-case.e) = 0
(* density d^dk is dimensionless *)
DensityIsDensity == expect.densityPow + case.d * (-case.e) = 0
(* consistency of the two routes to the radial pdf: k^(d-1) x density *)
SurfaceRoute == expect.radPdfPow = (-case.e) * SurfPow(case.d) + expect.densityPow
PpfInvertsCdf == expect.ppfPow = -case.e /\ expect.cdfPow = 0
=============================================================================
