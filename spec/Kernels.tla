------------------------------ MODULE Kernels ------------------------------
(***************************************************************************)
(* C15 / C16: the DEFINING SUMS of the compiled kernels of GSTools,         *)
(* evaluated by TLC with exact integer / rational arithmetic on exact       *)
(* lattices.  Every state of this specification is one (input, expected     *)
(* output) pair; the driver harness/drivers/kernels.py dumps the states and *)
(* runs each input through                                                  *)
(*   - the shipped compiled kernel and the Python wrapper dispatching to it,*)
(*   - a plain interpretation of the current .pyx,                          *)
(*   - the OpenMP build of the generated C for every thread count,          *)
(* and compares with `out`.                                                 *)
(*                                                                         *)
(* Lattices.  Wave vectors are k = (pi/2) * q with q in Z^d ("quarter       *)
(* turns"), positions x in Z^d, so the phase k.x is (q.x) quarter turns and *)
(* cos / sin take the values 1,0,-1,0 / 0,1,0,-1.  Amplitudes, kriging      *)
(* matrices, field values are small integers.  Rationals are <<num, den>>.  *)
(*                                                                         *)
(* Inputs come from two sources, both enumerated by TLC as initial states:  *)
(*   Cases    a sequence of input records (seeded lattice inputs of every   *)
(*            shape 0/1..4 and dimension 1..4, written into the MC wrapper  *)
(*            module by the driver; they carry an extra field `tag`),       *)
(*   boxes    the MC wrapper's own INIT  (CaseInit \/ \E ... : inp = [...]) *)
(*            /\ out = Result(inp)  enumerates complete small boxes: every  *)
(*            shape and every value combination of a small value set.       *)
(***************************************************************************)
EXTENDS Integers, Sequences, FiniteSets, TLC

CONSTANTS Cases,
          ProjSrc(_, _)   \* the projector expression extracted from the current summator.pyx:
                          \* (q, c) |-> rational p_c(k) for k = (pi/2) q (emitted by harness/pyx)

VARIABLES inp, out
vars == <<inp, out>>

---------------------------------------------------------------------------
(* helpers *)
RECURSIVE SumSeq(_)
SumSeq(s) == IF s = <<>> THEN 0 ELSE Head(s) + SumSeq(Tail(s))
RECURSIVE ProdSeq(_)
ProdSeq(s) == IF s = <<>> THEN 1 ELSE Head(s) * ProdSeq(Tail(s))

Dot(a, b) == SumSeq([i \in 1..Len(a) |-> a[i] * b[i]])
Norm2(a) == Dot(a, a)

Cos4(q) == CASE q % 4 = 0 -> 1 [] q % 4 = 1 -> 0 [] q % 4 = 2 -> -1 [] OTHER -> 0
Sin4(q) == CASE q % 4 = 0 -> 0 [] q % 4 = 1 -> 1 [] q % 4 = 2 -> 0 [] OTHER -> -1

(* rationals <<n, d>>, d # 0, kept in lowest terms with d > 0 (TLC integers are 32 bit); *)
(* compared by cross multiplication                                                       *)
Abs(x) == IF x < 0 THEN 0 - x ELSE x
RECURSIVE Gcd(_, _)
Gcd(a, b) == IF b = 0 THEN a ELSE Gcd(b, a % b)
RNorm(r) == LET g == Gcd(Abs(r[1]), Abs(r[2]))  sg == IF r[2] < 0 THEN 0 - 1 ELSE 1
            IN IF g = 0 THEN r ELSE <<sg * (r[1] \div g), sg * (r[2] \div g)>>
RInt(n) == <<n, 1>>
RAdd(a, b) == RNorm(<<a[1] * b[2] + b[1] * a[2], a[2] * b[2]>>)
RSub(a, b) == RNorm(<<a[1] * b[2] - b[1] * a[2], a[2] * b[2]>>)
RMul(a, b) == RNorm(<<a[1] * b[1], a[2] * b[2]>>)
RDiv(a, b) == RNorm(<<a[1] * b[2], a[2] * b[1]>>)
REq(a, b) == a[1] * b[2] = b[1] * a[2]
RECURSIVE RSumSeq(_)
RSumSeq(s) == IF s = <<>> THEN RInt(0) ELSE RAdd(Head(s), RSumSeq(Tail(s)))

---------------------------------------------------------------------------
(* randomization method:  f(x_i) = sum_j z1_j cos(k_j.x_i) + z2_j sin(k_j.x_i)   *)
(* i.k, i.x: sequences of d-tuples of integers; i.z1, i.z2: integer sequences    *)
Amp(i, j, p) == LET ph == Dot(i.k[j], i.x[p]) IN i.z1[j] * Cos4(ph) + i.z2[j] * Sin4(ph)

Summate(i) == [p \in 1..Len(i.x) |-> SumSeq([j \in 1..Len(i.k) |-> Amp(i, j, p)])]

(* Fourier method: the same with a spectrum factor per mode *)
SummateFourier(i) == [p \in 1..Len(i.x) |-> SumSeq([j \in 1..Len(i.k) |-> i.sf[j] * Amp(i, j, p)])]

(* incompressible randomization method:                                          *)
(*   u_c(x_i) = sum_j p_c(k_j) (z1_j cos(k_j.x_i) + z2_j sin(k_j.x_i)),          *)
(*   p_c(k) = delta_{c1} - k_c k_1 / |k|^2        (projector, k # 0)             *)
(* |k|^2 p_c(k) is the integer  ProjNum(k, c); the (pi/2)^2 factors cancel.      *)
ProjNum(k, c) == (IF c = 1 THEN Norm2(k) ELSE 0) - k[c] * k[1]
Proj(k, c) == <<ProjNum(k, c), Norm2(k)>>

(* result: per component c a sequence over points of <<num, den>>, common den = prod_j |k_j|^2 *)
IncomprDen(i) == ProdSeq([j \in 1..Len(i.k) |-> Norm2(i.k[j])])
SummateIncompr(i) ==
  LET D == IncomprDen(i) IN
  [c \in 1..i.d |->
     [p \in 1..Len(i.x) |->
        <<SumSeq([j \in 1..Len(i.k) |-> Amp(i, j, p) * ProjNum(i.k[j], c) * (D \div Norm2(i.k[j]))]), D>>]]

(* kriging summation:  field_k = sum_i cond_i (sum_j M_ij v_jk),                 *)
(*                     error_k = sum_i v_ik   (sum_j M_ij v_jk)                  *)
(* i.mat: n rows of n integers; i.vecs: n rows of m integers; i.cond: n integers *)
KrigFac(i, r, c) == SumSeq([j \in 1..Len(i.mat) |-> i.mat[r][j] * i.vecs[j][c]])
KrigeField(i) == [c \in 1..i.m |-> SumSeq([r \in 1..Len(i.mat) |-> i.cond[r] * KrigFac(i, r, c)])]
KrigeError(i) == [c \in 1..i.m |-> SumSeq([r \in 1..Len(i.mat) |-> i.vecs[r][c] * KrigFac(i, r, c)])]

(* Kriging through the public caller on a configuration whose system has a closed  *)
(* form: n conditioning points that are mutually out of range of a compactly       *)
(* supported model (covariance c0 at distance 0, exactly 0 beyond the range), and   *)
(* targets that are either at conditioning point j (i.tg = j) or out of range of     *)
(* every condition (i.tg = 0: the covariance block of that right-hand-side column is *)
(* identically zero).  Simple kriging (i.unb = FALSE, known mean i.mean):            *)
(*     K = c0 I,                M = I / c0                                           *)
(* ordinary kriging (i.unb = TRUE: extra row / column of ones, estimated mean):      *)
(*     K = [c0 I, 1; 1^T, 0],   M = [(I - J/n)/c0, 1/n; 1^T/n, -c0/n]                *)
(* FarInverseOK (checked by TLC) states K M = I, so M is the matrix the kernels are  *)
(* applied to.  The defining sums then give, column by column, the raw field         *)
(* sum_r cond_r (M rhs)_r and the error rhs^T M rhs; the caller must return          *)
(* field = mean + raw field and krige_var = c0 - error.  In particular for a far     *)
(* target: simple -> (mean, c0); ordinary -> (average of the data, c0 + c0/n).       *)
FarN(i) == Len(i.cond)
FarSize(i) == FarN(i) + (IF i.unb THEN 1 ELSE 0)
FarK(i, r, c) == IF r <= FarN(i) /\ c <= FarN(i) THEN (IF r = c THEN i.c0 ELSE 0)
                 ELSE IF r = c THEN 0 ELSE 1
FarM(i, r, c) ==
  LET n == FarN(i) IN
  IF ~i.unb THEN (IF r = c THEN <<1, i.c0>> ELSE RInt(0))
  ELSE IF r <= n /\ c <= n THEN <<(IF r = c THEN n ELSE 0) - 1, n * i.c0>>
  ELSE IF r = c THEN <<0 - i.c0, n>>
  ELSE <<1, n>>
FarRhs(i, t, r) == IF r > FarN(i) THEN 1 ELSE IF t = r THEN i.c0 ELSE 0
FarCond(i, r) == IF r > FarN(i) THEN 0 ELSE i.cond[r] - i.mean
FarFac(i, t, r) == RSumSeq([c \in 1..FarSize(i) |-> RMul(FarM(i, r, c), RInt(FarRhs(i, t, c)))])
FarRaw(i, t) == RSumSeq([r \in 1..FarSize(i) |-> RMul(RInt(FarCond(i, r)), FarFac(i, t, r))])
FarErr(i, t) == RSumSeq([r \in 1..FarSize(i) |-> RMul(RInt(FarRhs(i, t, r)), FarFac(i, t, r))])
KrigeFar(i) ==
  [mat   |-> [r \in 1..FarSize(i) |-> [c \in 1..FarSize(i) |-> FarM(i, r, c)]],
   raw   |-> [p \in 1..Len(i.tg) |-> FarRaw(i, i.tg[p])],
   err   |-> [p \in 1..Len(i.tg) |-> FarErr(i, i.tg[p])],
   field |-> [p \in 1..Len(i.tg) |-> RAdd(RInt(i.mean), FarRaw(i, i.tg[p]))],
   var   |-> [p \in 1..Len(i.tg) |-> RSub(RInt(i.c0), FarErr(i, i.tg[p]))]]
FarInverseOK ==
  inp.kind = "krige_far" =>
    \A r \in 1..FarSize(inp), c \in 1..FarSize(inp) :
       REq(RSumSeq([k \in 1..FarSize(inp) |-> RMul(RInt(FarK(inp, r, k)), FarM(inp, k, c))]),
           RInt(IF r = c THEN 1 ELSE 0))

(* light versions of the variogram estimators (Matheron; the full definition     *)
(* with directions, masks, Cressie, haversine is the subject of Vario.tla/C08):  *)
(* per bin / lag <<sum of squared increments, number of pairs>>; the estimate is *)
(* sum / (2 max(count, 1)).                                                      *)
(* unstructured: i.pos sequence of d-tuples, i.f sequence (fields) of sequences, *)
(* i.edges: non-negative integer bin edges; pair (a,b), a<b, is in bin e iff      *)
(* edges[e] <= |pos_a - pos_b| < edges[e+1]   (compared through the squares)     *)
Diff(a, b) == [c \in 1..Len(a) |-> a[c] - b[c]]
PairsInBin(i, e) == {ab \in (1..Len(i.pos)) \X (1..Len(i.pos)) :
                       /\ ab[1] < ab[2]
                       /\ LET d2 == Norm2(Diff(i.pos[ab[1]], i.pos[ab[2]]))
                          IN i.edges[e] * i.edges[e] <= d2 /\ d2 < i.edges[e + 1] * i.edges[e + 1]}
RECURSIVE SumSet(_, _)
SumSet(S, i) == IF S = {} THEN 0
                ELSE LET ab == CHOOSE x \in S : TRUE
                     IN SumSeq([m \in 1..Len(i.f) |-> (i.f[m][ab[1]] - i.f[m][ab[2]]) * (i.f[m][ab[1]] - i.f[m][ab[2]])])
                        + SumSet(S \ {ab}, i)
VarioUnstructured(i) == [e \in 1..(Len(i.edges) - 1) |->
                           LET S == PairsInBin(i, e) IN <<SumSet(S, i), Cardinality(S) * Len(i.f)>>]

(* structured (along the first axis): i.f rows x columns;                        *)
(* lag l = 0..rows-1: pairs (r, r+l) in every column; lag 0 is empty             *)
VarioStructured(i) ==
  LET R == Len(i.f) IN
  [l1 \in 1..R |->
     LET l == l1 - 1 IN
     IF l = 0 THEN <<0, 0>>
     ELSE <<SumSeq([r \in 1..(R - l) |-> SumSeq([c \in 1..i.cols |-> (i.f[r][c] - i.f[r + l][c]) * (i.f[r][c] - i.f[r + l][c])])]),
            (R - l) * i.cols>>]

(* directional estimator (Matheron, no bandwidth): for EVERY direction u and bin e *)
(* the sum runs over ALL pairs a<b whose distance is in the bin and whose          *)
(* connecting line encloses less than the tolerance with the UNORIENTED axis u --  *)
(* overlapping cones both count the pairs of the overlap, whatever the order or    *)
(* orientation in which the directions are given (this is also what the caller     *)
(* vario_estimate(direction=...) must return: its decision to let the kernel stop  *)
(* at the first matching direction is an optimisation that must not be observable).*)
(* i.dirs: non-zero integer d-tuples (not normalised); i.tol in {1, 3}: tolerance  *)
(* tol*pi/8.  With s = v.u, n = |v|^2 |u|^2, a = 2 s^2 - n = n cos(2 theta):       *)
(*   theta <   pi/8  <=>  a > 0 /\ 2 a^2 > n^2                                    *)
(*   theta < 3 pi/8  <=>  a > 0 \/ 2 a^2 < n^2                                    *)
(* 2 a^2 = n^2 has no integer solution with n > 0: no pair is ever on the boundary.*)
InCone(v, u, tol) ==
  LET s == Dot(v, u)  n == Norm2(v) * Norm2(u)  a == 2 * s * s - n IN
  IF Norm2(v) = 0 THEN TRUE            \* coincident points count in every direction
  ELSE IF tol = 1 THEN a > 0 /\ 2 * a * a > n * n
  ELSE a > 0 \/ 2 * a * a < n * n
(* A pair of COINCIDENT points has no direction.  The kernel counts it in every   *)
(* direction (separate_dirs = FALSE); whether the caller counts it in every      *)
(* direction or only in the first one is left open by the documentation: the     *)
(* spec reports the contribution of these pairs per bin (VarioCoincident) and    *)
(* the caller may omit it from the directions after the first.                   *)
VarioCoincident(i) ==
  [e \in 1..(Len(i.edges) - 1) |->
     LET S == {ab \in PairsInBin(i, e) : Norm2(Diff(i.pos[ab[1]], i.pos[ab[2]])) = 0}
     IN <<SumSet(S, i), Cardinality(S) * Len(i.f)>>]
VarioDirectional(i) ==
  [u \in 1..Len(i.dirs) |->
     [e \in 1..(Len(i.edges) - 1) |->
        LET S == {ab \in PairsInBin(i, e) : InCone(Diff(i.pos[ab[1]], i.pos[ab[2]]), i.dirs[u], i.tol)}
        IN <<SumSet(S, i), Cardinality(S) * Len(i.f)>>]]

(* C16, histories on ONE generator object.  The settings of a vector field generator *)
(* are [mean, ve, modes, seed] (mean velocity, variance 4^ve, number of modes, seed); *)
(* operations re-assign one of them or generate a field.  The property is that every  *)
(* generated field is the field of the CURRENT settings (mean = current mean velocity *)
(* along e1, fluctuation scaled by the current mean and sqrt(var)), i.e. equal to what *)
(* a freshly built generator with these settings returns: out.gens lists, for every   *)
(* "gen" of the history, the settings its result must correspond to.                  *)
(* Further operations that leave the settings alone:                                   *)
(*  - "copy" / "deepcopy" / "pickle": the object is replaced by its copy (copy.copy,   *)
(*    copy.deepcopy, pickle round trip); the copy is a generator with the ORIGINAL's    *)
(*    settings, so everything generated afterwards obeys the same clauses.  For the     *)
(*    independent copies (deepcopy, pickle) the original must in turn be unaffected by  *)
(*    what is done to the copy afterwards: out.orig = its settings at the first such    *)
(*    copy.                                                                             *)
(*  - "gen" carries in v the spelling of the call, which must not matter: 0 = SRF      *)
(*    call, 1 = generator(pos), 2 = generator(pos, add_nugget=False), 3 = generator(    *)
(*    pos, add_nugget=True) (the models have no nugget).                               *)
ApplyOp(st, o) ==
  CASE o.op = "mean"  -> [st EXCEPT !.mean = o.v]
    [] o.op = "var"   -> [st EXCEPT !.ve = o.v]
    [] o.op = "modes" -> [st EXCEPT !.modes = o.v]
    [] o.op = "seed"  -> [st EXCEPT !.seed = o.v]
    [] OTHER          -> st
RECURSIVE HistGens(_, _)
HistGens(st, ops) ==
  IF ops = <<>> THEN <<>>
  ELSE LET o == Head(ops) IN
       IF o.op = "gen" THEN <<st>> \o HistGens(st, Tail(ops))
       ELSE HistGens(ApplyOp(st, o), Tail(ops))

RECURSIVE HistOrig(_, _)
HistOrig(st, ops) ==
  IF ops = <<>> THEN <<>>
  ELSE LET o == Head(ops) IN
       IF o.op \in {"deepcopy", "pickle"} THEN <<st>>
       ELSE HistOrig(ApplyOp(st, o), Tail(ops))

(* Value scales.  Every kernel is linear in its amplitudes (z1, z2 / spectrum factor / *)
(* conditioning values): an input may carry a scale exponent `se`, meaning that the     *)
(* amplitudes handed to the implementation are 2^se times the integers of the record    *)
(* (exact in binary64 for |se| <= 900); the result must then be exactly 2^se times the  *)
(* integer result below -- for tiny and huge scales alike (no absolute threshold may    *)
(* decide which terms are summed).                                                      *)
ScaleOf(i) == IF "se" \in DOMAIN i THEN i.se ELSE 0

(* C16: a single mode with z1 = 1, z2 = 0 at x = 0 returns the projector itself *)
Projector(i) == [c \in 1..Len(i.kv) |-> Proj(i.kv, c)]

Result(i) ==
  CASE i.kind = "summate"    -> [field |-> Summate(i), se |-> ScaleOf(i)]
    [] i.kind = "fourier"    -> [field |-> SummateFourier(i), se |-> ScaleOf(i)]
    [] i.kind = "incompr"    -> [field |-> SummateIncompr(i), se |-> ScaleOf(i)]
    [] i.kind = "krige"      -> [field |-> KrigeField(i), error |-> KrigeError(i), se |-> ScaleOf(i)]
    [] i.kind = "krige_far"  -> KrigeFar(i)
    [] i.kind = "vario_u"    -> [bins |-> VarioUnstructured(i)]
    [] i.kind = "vario_s"    -> [bins |-> VarioStructured(i)]
    [] i.kind = "vario_d"    -> [dirs |-> VarioDirectional(i), coincident |-> VarioCoincident(i)]
    [] i.kind = "vf_hist"    -> [gens |-> HistGens(i.init, i.ops), orig |-> HistOrig(i.init, i.ops)]
    [] i.kind = "projector"  -> [p |-> Projector(i)]

CaseInit == \E n \in 1..Len(Cases) : inp = Cases[n]
Init == CaseInit /\ out = Result(inp)

Next == UNCHANGED vars
Spec == Init /\ [][Next]_vars

---------------------------------------------------------------------------
(* C16, divergence freeness.  One mode contributes p(k) g(k.x) to the field;    *)
(* its divergence is (k . p(k)) g'(k.x).  |k|^2 (k . p(k)) is a polynomial of   *)
(* degree 3 in k_1 and 2 in the other components, so its vanishing on the box   *)
(* (-2..2)^d (five values per variable) implies that it vanishes identically.   *)
Solenoidal ==
  inp.kind = "projector" =>
     SumSeq([c \in 1..Len(inp.kv) |-> inp.kv[c] * ProjNum(inp.kv, c)]) = 0

(* p(k) is a projector orthogonal to k: idempotent on e1 up to the scale, i.e.  *)
(* p(k) = e1 - k (k.e1)/|k|^2  has  p.p = p_1  (|p|^2 = p_1)                    *)
ProjectorNorm ==
  (inp.kind = "projector" /\ Norm2(inp.kv) # 0) =>
     SumSeq([c \in 1..Len(inp.kv) |-> ProjNum(inp.kv, c) * ProjNum(inp.kv, c)]) = ProjNum(inp.kv, 1) * Norm2(inp.kv)

(* the same two statements for the projector expression of the CURRENT source   *)
(* (ProjSrc is generated from summator.pyx at check time), and its equality     *)
(* with the documented projector                                                *)
ExtractedSolenoidal ==
  (inp.kind = "projector" /\ Norm2(inp.kv) # 0) =>
     REq(RSumSeq([c \in 1..Len(inp.kv) |-> RMul(RInt(inp.kv[c]), ProjSrc(inp.kv, c))]), RInt(0))

ExtractedIsProjector ==
  (inp.kind = "projector" /\ Norm2(inp.kv) # 0) =>
     \A c \in 1..Len(inp.kv) : REq(ProjSrc(inp.kv, c), Proj(inp.kv, c))
=============================================================================
