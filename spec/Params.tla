------------------------------- MODULE Params -------------------------------
(***************************************************************************)
(* Ideal specification of the parameter state of a GSTools covariance      *)
(* model (property C14, the state clauses of C13 and the integral-scale    *)
(* setter of C03).                                                         *)
(*                                                                         *)
(* State = the public parameters.  Every action is one public assignment   *)
(* (or set_arg_bounds call) with its *documented* effect.  All real values *)
(* are integers in units of 1/64 ("U = 64" is 1.0), so products and        *)
(* quotients of the dyadic value domains are exact.  Angles are opaque     *)
(* tokens (0 = the zero angle): they are only stored, padded and zeroed.   *)
(*                                                                         *)
(* A rejected assignment (value outside its bounds => an exception is      *)
(* required) is terminal: the property says nothing about the state after  *)
(* a failed assignment.                                                    *)
(***************************************************************************)
EXTENDS Integers, Sequences, FiniteSets, TLC

CONSTANTS
  Cls,        \* "Plain" | "OptFixed" | "OptDim" | "TPL"
  LatLon,     \* BOOLEAN   (construction time)
  Temporal,   \* BOOLEAN   (construction time)
  Dims,       \* dimensions that may be assigned / used at construction
  LenVals, AnisVals, VarVals, NugVals, RescaleVals, OptVals, IntVals,  \* value domains (units of 1/64)
  BadVals,    \* out-of-bounds candidates for the positive parameters, e.g. {0, -64}
  AngVals,    \* angle tokens, 0 is the zero angle
  OptLo0, OptHi, OptLc, OptHc,   \* default bounds of the optional argument ("OptFixed", "TPL")
  OptOff,     \* "OptDim": default lower bound is (dim + OptOff)/2, closed
  InitLen,    \* length scale at construction (1.0 = 64 except for the lattice restricted class "TPLHL")
  CustomB,    \* function: argument name -> set of custom bounds records
  MaxCustom   \* at most this many arguments carry custom bounds (keeps the model small)

U   == 64
Inf == 1000000

VARIABLES dim, len, anis, angles, varRaw, nugget, rescale, opt, bnd, custom, status, op

pvars == <<dim, len, anis, angles, varRaw, nugget, rescale, opt, bnd, custom, status>>
vars  == <<dim, len, anis, angles, varRaw, nugget, rescale, opt, bnd, custom, status, op>>

Args == {"var", "len_scale", "nugget", "anis", "opt"}
HasOpt == Cls # "Plain"

-----------------------------------------------------------------------------
(* exact arithmetic in units of 1/64 *)
Mul(a, b) == IF (a * b) % U = 0 THEN (a * b) \div U
             ELSE Assert(FALSE, <<"inexact product", a, b>>)
Div(a, b) == IF b # 0 /\ (a * U) % b = 0 THEN (a * U) \div b
             ELSE Assert(FALSE, <<"inexact quotient", a, b>>)

NoAng(d)  == (d * (d - 1)) \div 2
Ones(n)   == [i \in 1..n |-> U]
Zeros(n)  == [i \in 1..n |-> 0]
Take(s, n) == IF Len(s) <= n THEN s ELSE SubSeq(s, 1, n)

(* documented fitting rules: ratios are cut on the right and padded with 1 on the
   LEFT; angles are cut on the right and padded with 0 on the right *)
FitAnis(d, s) == LET t == Take(s, d - 1) IN Ones(d - 1 - Len(t)) \o t
FitAng(d, s)  == LET t == Take(s, NoAng(d)) IN t \o Zeros(NoAng(d) - Len(t))

LLAnis(s) == IF LatLon THEN [i \in 1..Len(s) |-> IF i <= 2 THEN U ELSE s[i]] ELSE s
ModelAngles(d, s) ==
  IF LatLon THEN Zeros(NoAng(d))
  ELSE LET a == FitAng(d, s)
       IN IF Temporal THEN [i \in 1..Len(a) |-> IF i > NoAng(d - 1) THEN 0 ELSE a[i]] ELSE a

(* variance factor of the truncated power law models:
   ((len_low + len)/rescale)^(2H) - (len_low/rescale)^(2H)) / (2H)
   "TPL":  H = 1/2 fixed, optional argument = len_low  ->  len/rescale
   "TPLH": len_low = 0, optional argument = H in {1/4 (=16), 1/2 (=32)}; H = 1/4 -> 2 sqrt(len/rescale),
           evaluated on len/rescale in {1/4, 1, 4} where the square root is exact *)
SqrtQ(q) == CASE q = 16 -> 32 [] q = 64 -> 64 [] q = 256 -> 128 [] q = 144 -> 96 [] q = 400 -> 160
              [] OTHER -> Assert(FALSE, <<"inexact square root", q>>)
LenLowQ == IF Cls = "TPLHL" THEN 16 ELSE 0      \* "TPLHL": as "TPLH" with the lower truncation fixed at 1/4
VarFac(o, l, r) == CASE Cls = "TPL" -> Div(l, r)
                     [] Cls \in {"TPLH", "TPLHL"} ->
                          (CASE o = 32 -> Div(l, r)
                             [] o = 16 -> 2 * (SqrtQ(Div(LenLowQ + l, r)) - (IF LenLowQ = 0 THEN 0 ELSE SqrtQ(Div(LenLowQ, r))))
                             [] OTHER -> U)   \* other Hurst values are never in bounds in the models used
                     [] OTHER -> U
IsTPL == Cls \in {"TPL", "TPLH", "TPLHL"}
VarOfO(vr, l, r, o) == IF IsTPL /\ l > 0 THEN Mul(vr, VarFac(o, l, r)) ELSE vr
RawOfO(v, l, r, o)  == IF IsTPL THEN Div(v, VarFac(o, l, r)) ELSE v
VarOf(vr, l, r) == VarOfO(vr, l, r, opt)
RawOf(v, l, r)  == RawOfO(v, l, r, opt)
var == VarOf(varRaw, len, rescale)

B(lo, hi, lc, hc) == [lo |-> lo, hi |-> hi, lc |-> lc, hc |-> hc]
InB(b, v) == /\ IF b.lc THEN v >= b.lo ELSE v > b.lo
             /\ IF b.hc THEN v <= b.hi ELSE v < b.hi

OptDefault(d) == IF Cls = "OptDim" THEN B(32 * (d + OptOff), 50 * U, TRUE, TRUE)
                 ELSE B(OptLo0, OptHi, OptLc, OptHc)
DefaultB(d) == [a \in Args |->
    CASE a = "var"       -> B(0, Inf, FALSE, FALSE)
      [] a = "len_scale" -> B(0, Inf, FALSE, FALSE)
      [] a = "nugget"    -> B(0, Inf, TRUE, FALSE)
      [] a = "anis"      -> B(0, Inf, FALSE, FALSE)
      [] a = "opt"       -> OptDefault(d)]

(* default_arg_from_bounds, documented in set_arg_bounds: "a proper default value" *)
DefFrom(b) == IF b.lo > -Inf /\ b.hi < Inf THEN (b.lo + b.hi) \div 2
              ELSE IF b.lo > -Inf THEN b.lo + U ELSE b.hi - U

AllIn(b, vr, l, an, ng, r, o) ==
  /\ InB(b["var"], VarOfO(vr, l, r, o))
  /\ InB(b["len_scale"], l)
  /\ InB(b["nugget"], ng)
  /\ \A i \in 1..Len(an) : InB(b["anis"], an[i])
  /\ (HasOpt => InB(b["opt"], o))

Verdict(b, vr, l, an, ng, r, o) == IF AllIn(b, vr, l, an, ng, r, o) THEN "Ok" ELSE "Rejected"

-----------------------------------------------------------------------------
InitDims == IF LatLon THEN {3 + (IF Temporal THEN 1 ELSE 0)} ELSE Dims

Init ==
  /\ dim \in InitDims
  /\ len = InitLen /\ anis = Ones(dim - 1) /\ angles = Zeros(NoAng(dim))
  /\ varRaw = U /\ nugget = 0 /\ rescale = U
  /\ opt \in (IF HasOpt THEN {o \in OptVals : InB(OptDefault(dim), o)} ELSE {0})
  /\ bnd = DefaultB(dim) /\ custom = {}
  /\ status = "Ok"
  /\ op = [name |-> "Init"]

Live == status = "Ok"

SetVar(v) ==
  /\ Live /\ op' = [name |-> "SetVar", v |-> v]
  /\ varRaw' = RawOf(v, len, rescale)
  /\ status' = Verdict(bnd, varRaw', len, anis, nugget, rescale, opt)
  /\ UNCHANGED <<dim, len, anis, angles, nugget, rescale, opt, bnd, custom>>

SetVarRaw(v) ==
  /\ Live /\ op' = [name |-> "SetVarRaw", v |-> v]
  /\ varRaw' = v
  /\ status' = Verdict(bnd, v, len, anis, nugget, rescale, opt)
  /\ UNCHANGED <<dim, len, anis, angles, nugget, rescale, opt, bnd, custom>>

SetNugget(n) ==
  /\ Live /\ op' = [name |-> "SetNugget", v |-> n]
  /\ nugget' = n
  /\ status' = Verdict(bnd, varRaw, len, anis, n, rescale, opt)
  /\ UNCHANGED <<dim, len, anis, angles, varRaw, rescale, opt, bnd, custom>>

(* a scalar length scale leaves every ratio alone (also the time ratio of a
   lat-lon + temporal model); the variance of a TPL model follows *)
SetLenScalar(l) ==
  /\ Live /\ op' = [name |-> "SetLenScalar", v |-> l]
  /\ len' = l
  /\ status' = IF l > 0 THEN Verdict(bnd, varRaw, l, anis, nugget, rescale, opt) ELSE "Rejected"
  /\ UNCHANGED <<dim, anis, angles, varRaw, nugget, rescale, opt, bnd, custom>>

(* a list of length scales redefines the ratios; too short lists are continued
   with their last entry, too long ones are cut *)
LenListEffect(ls) ==
  LET t    == Take(ls, dim)
      full == [i \in 1..dim |-> IF i <= Len(t) THEN t[i] ELSE t[Len(t)]]
  IN [len |-> full[1], anis |-> LLAnis([i \in 1..dim - 1 |-> Div(full[i + 1], full[1])])]

SetLenList(ls) ==
  /\ Live /\ Len(ls) >= 2 /\ op' = [name |-> "SetLenList", s |-> ls]
  /\ IF dim = 1
     THEN /\ len' = ls[1] /\ anis' = anis     \* only the first entry is used in 1-D
     ELSE /\ len' = LenListEffect(ls).len /\ anis' = LenListEffect(ls).anis
  /\ status' = Verdict(bnd, varRaw, len', anis', nugget, rescale, opt)
  /\ UNCHANGED <<dim, angles, varRaw, nugget, rescale, opt, bnd, custom>>

SetAnis(as) ==   \* as: sequence (a scalar is the sequence of length one)
  /\ Live /\ op' = [name |-> "SetAnis", s |-> as]
  /\ anis' = LLAnis(FitAnis(dim, as))
  /\ status' = IF \A i \in 1..Len(FitAnis(dim, as)) : FitAnis(dim, as)[i] > 0
               THEN Verdict(bnd, varRaw, len, anis', nugget, rescale, opt) ELSE "Rejected"
  /\ UNCHANGED <<dim, len, angles, varRaw, nugget, rescale, opt, bnd, custom>>

SetAngles(as) ==
  /\ Live /\ op' = [name |-> "SetAngles", s |-> as]
  /\ angles' = ModelAngles(dim, as)
  /\ status' = "Ok"
  /\ UNCHANGED <<dim, len, anis, varRaw, nugget, rescale, opt, bnd, custom>>

(* dimension change: ratios / angles are re-fitted; the dimension dependent
   default bound of the optional argument follows unless the user installed
   custom bounds; lat-lon models ignore the assignment *)
SetDim(d) ==
  /\ Live /\ op' = [name |-> "SetDim", v |-> d]
  /\ IF LatLon
     THEN UNCHANGED <<dim, anis, angles, bnd, status>>
     ELSE /\ dim' = d
          /\ anis' = FitAnis(d, anis)
          /\ angles' = ModelAngles(d, angles)
          /\ bnd' = IF Cls = "OptDim" /\ "opt" \notin custom
                    THEN [bnd EXCEPT !["opt"] = OptDefault(d)] ELSE bnd
          /\ status' = Verdict(bnd', varRaw, len, anis', nugget, rescale, opt)
  /\ UNCHANGED <<len, varRaw, nugget, rescale, opt, custom>>

SetOpt(o) ==
  /\ Live /\ HasOpt /\ op' = [name |-> "SetOpt", v |-> o]
  /\ opt' = o
  /\ status' = Verdict(bnd, varRaw, len, anis, nugget, rescale, o)
  /\ UNCHANGED <<dim, len, anis, angles, varRaw, nugget, rescale, bnd, custom>>

SetRescale(r) ==
  /\ Live /\ op' = [name |-> "SetRescale", v |-> r]
  /\ rescale' = r
  \* the rescale setter performs no bounds check of its own.  For TPL models the
  \* variance follows the rescale factor; the case in which that drives the
  \* variance out of user defined bounds is left unmodelled (the documentation
  \* is silent about it), hence the enabling condition.
  /\ AllIn(bnd, varRaw, len, anis, nugget, r, opt)
  /\ status' = "Ok"
  /\ UNCHANGED <<dim, len, anis, angles, varRaw, nugget, opt, bnd, custom>>

(* prescribing the integral scale instead of the length scale; modelled for the
   classes whose integral scale is len_scale / rescale (Exponential family) *)
SetIntScale(is) ==   \* is: sequence of length >= 1
  /\ Live /\ Cls = "Plain" /\ op' = [name |-> "SetIntScale", s |-> is]
  \* the setter passes through intermediate length scales (the requested integral scale itself and 1);
  \* with user defined length-scale bounds the call is only modelled when those intermediates are
  \* inside the bounds - the final length scale is then subject to the bounds like any other
  /\ ("len_scale" \in custom => InB(bnd["len_scale"], is[1]) /\ InB(bnd["len_scale"], U))
  /\ IF is[1] <= 0
     THEN /\ status' = "Rejected" /\ UNCHANGED <<len, anis>>
     ELSE /\ IF Len(is) = 1 \/ dim = 1
             THEN /\ len' = Mul(is[1], rescale) /\ anis' = anis
             ELSE /\ len' = Mul(LenListEffect(is).len, rescale) /\ anis' = LenListEffect(is).anis
          /\ status' = Verdict(bnd, varRaw, len', anis', nugget, rescale, opt)
  /\ UNCHANGED <<dim, angles, varRaw, nugget, rescale, opt, bnd, custom>>

(* set_arg_bounds(check_args, arg=b): install custom bounds; with check_args a
   value outside the new bounds is replaced by the documented default.  Without
   check_args the call is only modelled when the current value is inside b. *)
CurVal(a) == CASE a = "var" -> var [] a = "len_scale" -> len [] a = "nugget" -> nugget
               [] a = "opt" -> opt [] OTHER -> 0
ArgIn(a, b) == IF a = "anis" THEN \A i \in 1..Len(anis) : InB(b, anis[i]) ELSE InB(b, CurVal(a))

SetBounds(a, b, check) ==
  /\ Live /\ (a = "opt" => HasOpt)
  /\ (a \in custom \/ Cardinality(custom) < MaxCustom)
  /\ (~check => ArgIn(a, b))
  /\ ~(LatLon /\ a = "anis")
  /\ op' = [name |-> "SetBounds", arg |-> a, b |-> b, check |-> check]
  /\ bnd' = [bnd EXCEPT ![a] = b]
  /\ custom' = custom \cup {a}
  /\ LET d == DefFrom(b) IN
     IF ArgIn(a, b)
     THEN UNCHANGED <<len, anis, varRaw, nugget, opt>>
     ELSE CASE a = "var"       -> varRaw' = RawOf(d, len, rescale) /\ UNCHANGED <<len, anis, nugget, opt>>
            [] a = "len_scale" -> len' = d /\ UNCHANGED <<anis, varRaw, nugget, opt>>
            [] a = "nugget"    -> nugget' = d /\ UNCHANGED <<len, anis, varRaw, opt>>
            [] a = "anis"      -> anis' = [i \in 1..dim - 1 |-> d] /\ UNCHANGED <<len, varRaw, nugget, opt>>
            [] a = "opt"       -> opt' = d /\ UNCHANGED <<len, anis, varRaw, nugget>>
  /\ status' = Verdict(bnd', varRaw', len', anis', nugget', rescale, opt')
  /\ UNCHANGED <<dim, angles, rescale>>

(* set_arg_bounds(var = bv, len_scale = bl) in ONE call (check_args = True): both bounds are installed,
   an out-of-bounds length scale is replaced first, the variance is checked and reset LAST ("set var
   last like always"), i.e. against the variance that results from the new length scale *)
SetBounds2(bv, bl) ==
  /\ Live /\ custom = {}     \* with earlier custom bounds the intermediate states of the call may already be rejected: unmodelled
  /\ op' = [name |-> "SetBounds2", bv |-> bv, bl |-> bl]
  /\ bnd' = [bnd EXCEPT !["var"] = bv, !["len_scale"] = bl]
  /\ custom' = custom \cup {"var", "len_scale"}
  /\ len' = IF InB(bl, len) THEN len ELSE DefFrom(bl)
  /\ varRaw' = IF InB(bv, VarOf(varRaw, len', rescale)) THEN varRaw ELSE RawOf(DefFrom(bv), len', rescale)
  /\ status' = Verdict(bnd', varRaw', len', anis, nugget, rescale, opt)
  /\ UNCHANGED <<dim, anis, angles, nugget, rescale, opt>>

-----------------------------------------------------------------------------
SeqsOf(S, lo, hi) == UNION {[1..n -> S] : n \in lo..hi}

Next ==
  \/ \E v \in VarVals \cup BadVals : SetVar(v)
  \/ (IsTPL /\ \E v \in VarVals \cup BadVals : SetVarRaw(v))
  \/ \E n \in NugVals : SetNugget(n)
  \/ \E l \in LenVals \cup BadVals : SetLenScalar(l)
  \/ \E ls \in SeqsOf(LenVals, 2, 3) : SetLenList(ls)
  \/ \E as \in SeqsOf(AnisVals \cup BadVals, 1, 2) : SetAnis(as)
  \/ \E as \in SeqsOf(AngVals, 1, 3) : SetAngles(as)
  \/ \E d \in Dims : SetDim(d)
  \/ \E o \in OptVals : SetOpt(o)
  \/ \E r \in RescaleVals : SetRescale(r)
  \/ \E is \in SeqsOf(IntVals, 1, 2) : (\A i \in 2..Len(is) : is[i] > 0) /\ SetIntScale(is)
  \/ \E a \in DOMAIN CustomB : \E b \in CustomB[a] : \E c \in BOOLEAN : SetBounds(a, b, c)
  \/ ({"var", "len_scale"} \subseteq DOMAIN CustomB /\
      \E bv \in CustomB["var"], bl \in CustomB["len_scale"] : SetBounds2(bv, bl))

Spec == Init /\ [][Next]_vars

-----------------------------------------------------------------------------
(* invariants: the consistency clauses of C14 / C13 *)
TypeOK ==
  /\ dim \in InitDims \cup Dims
  /\ Len(anis) = dim - 1 /\ Len(angles) = NoAng(dim)
  /\ status \in {"Ok", "Rejected"}
  /\ custom \subseteq Args

LatLonIsotropic == (LatLon /\ Live) =>
  /\ dim = 3 + (IF Temporal THEN 1 ELSE 0)
  /\ anis[1] = U /\ anis[2] = U
  /\ \A i \in 1..Len(angles) : angles[i] = 0

TimeNotRotated == (Temporal /\ Live) =>
  \A i \in 1..Len(angles) : i > NoAng(dim - 1) => angles[i] = 0

InBounds == Live => AllIn(bnd, varRaw, len, anis, nugget, rescale, opt)

(* derived quantities, as the property lists them *)
Sill         == var + nugget
LenScaleVec  == [i \in 1..dim |-> IF i = 1 THEN len ELSE Mul(len, anis[i - 1])]
FieldDim     == IF LatLon THEN 2 + (IF Temporal THEN 1 ELSE 0) ELSE dim
SpatialDim   == IF LatLon THEN 2 ELSE dim - (IF Temporal THEN 1 ELSE 0)
DerivedConsistent == Live => /\ Sill = var + nugget
                             /\ Len(LenScaleVec) = dim
                             /\ FieldDim >= SpatialDim

(* an assignment changes only what its documentation names *)
OnlyDocumentedCoupling == [][
  /\ (op'.name \in {"SetVar", "SetVarRaw"} => UNCHANGED <<dim, len, anis, angles, nugget, rescale, opt, bnd>>)
  /\ (op'.name = "SetNugget" => UNCHANGED <<dim, len, anis, angles, varRaw, rescale, opt, bnd>>)
  /\ (op'.name = "SetLenScalar" => UNCHANGED <<dim, anis, angles, varRaw, nugget, rescale, opt, bnd>>)
  /\ (op'.name = "SetLenList" => UNCHANGED <<dim, angles, varRaw, nugget, rescale, opt, bnd>>)
  /\ (op'.name = "SetAnis" => UNCHANGED <<dim, len, angles, varRaw, nugget, rescale, opt, bnd>>)
  /\ (op'.name = "SetAngles" => UNCHANGED <<dim, len, anis, varRaw, nugget, rescale, opt, bnd>>)
  /\ (op'.name = "SetDim" => UNCHANGED <<len, varRaw, nugget, rescale, opt>>)
  /\ (op'.name = "SetOpt" => UNCHANGED <<dim, len, anis, angles, varRaw, nugget, rescale, bnd>>)
  /\ (op'.name = "SetRescale" => UNCHANGED <<dim, len, anis, angles, varRaw, nugget, opt, bnd>>)
  ]_vars

View == pvars
=============================================================================
