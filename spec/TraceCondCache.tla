---------------------------- MODULE TraceCondCache ----------------------------
(***************************************************************************)
(* Trace validation for the CondSRF cache machine (code -> spec direction  *)
(* of C07).  Random operation sequences are executed on real CondSRF       *)
(* objects; a wrapper around Krige.__call__ tells, for every cond_srf()    *)
(* call, whether the kriging system was evaluated again or the cached      *)
(* results were reused.  That observation is the reuse decision of the     *)
(* code-shaped layer; every recorded execution must be explained by it.    *)
(***************************************************************************)
EXTENDS CondCache, Sequences, Json, IOUtils

Log == JsonDeserialize(IOEnv.TRACE_FILE)
VARIABLE l
tvars == <<cfg, pos, seed, dirty, op, mat, kvar, rawk, res, own, l>>
E == Log[l]

Load(e) ==
  /\ cfg' = e.cfg /\ pos' = Keep /\ seed' = e.seed /\ dirty' = FALSE
  /\ mat' = [cpos |-> e.cfg.cpos, model |-> e.cfg.model]
  /\ kvar' = NoTag /\ rawk' = NoTag /\ res' = NoTag /\ own' = [r |-> FALSE, k |-> FALSE]
  /\ op' = [name |-> "Init"]

TraceInit ==
  /\ l = 2 /\ Log[1].name = "Init"
  /\ cfg = Log[1].cfg /\ pos = Keep /\ seed = Log[1].seed /\ dirty = FALSE
  /\ mat = [cpos |-> cfg.cpos, model |-> cfg.model]
  /\ kvar = NoTag /\ rawk = NoTag /\ res = NoTag /\ own = [r |-> FALSE, k |-> FALSE]
  /\ op = [name |-> "Init"]

Step ==
  CASE E.name = "Init"         -> Load(E)
    [] E.name = "Call"         -> Call(E.p, E.s, E.st, E.kst)
    [] E.name = "SetPos"       -> SetPos(E.p)
    [] E.name = "SetCondition" -> SetCondition(E.cp, E.cv, E.form)
    [] E.name = "ChangeModel"  -> ChangeModel(E.m, E.how)
    [] E.name = "ChangeMean"   -> ChangeMean(E.v)
    [] E.name = "KrigeCall"    -> KrigeCall(E.p)
    [] E.name = "DeleteFields" -> DeleteFields

TraceNext == l <= Len(Log) /\ Step /\ l' = l + 1
TraceSpec == TraceInit /\ [][TraceNext]_tvars

Logged == Log[l - 1]
TraceMatches == Logged.name = "Call" => op.reuse = Logged.reuse
NotStuck == l <= Len(Log) => ENABLED Step
TraceAccepted == TLCGet("stats").diameter = Len(Log)
=============================================================================
