------------------------------- MODULE Derive -------------------------------
(***************************************************************************)
(* Property C03: the four model functions of a GSTools covariance model    *)
(* (cor, correlation, covariance, variogram) are mutually consistent, the  *)
(* variants (nugget, axis, Yadrenko, spatial) are the isotropic functions  *)
(* of a transformed lag, shipped models equal their documented closed      *)
(* forms, and the integral scale can be prescribed instead of the length   *)
(* scale.                                                                  *)
(*                                                                         *)
(* Independent parts share this module; a configuration selects one        *)
(* through INIT/NEXT (InitGraph/NextGraph, InitVariant, InitUnit, InitPoly, *)
(* InitInt, InitHist/NextHist, InitTpl, InitHalf, InitCtor).  The variables *)
(* of the other parts are None.                                            *)
(*                                                                         *)
(*  A  derivation graph: which function a class gets for each of the four  *)
(*     names given the subset D it defines itself; evaluation must         *)
(*     terminate in a member of D; D = {} must be rejected.                *)
(*  B  variant rules as exact reductions "variant(args) = f(lag)" on a     *)
(*     lattice on which the transformed lag is exact; the same cases in    *)
(*     other length units (len_scale, lags, positions, radius x 2^ue).     *)
(*  C  PolyCor: the documented closed forms of the polynomial / rational   *)
(*     models evaluated with exact rationals on lags k/8 * len_scale.      *)
(*  D  prescribing the integral scale (scalar and list forms).             *)
(*  E  the integral scale along a history of assignments on one object     *)
(*     (len_scale, rescale, shape parameter, dim, integral_scale).         *)
(*  F  the truncated-power-law superposition (lower truncation, rescale):  *)
(*     exact weights of the documented two-mode closed form, mode bounds.  *)
(*  G  Matern with half-integer shape: exp(-z) times an exact polynomial.  *)
(*  H  the spellings of a construction (var | var_raw) x (len_scale |      *)
(*     integral_scale scalar | list) x rescale given / omitted, for models *)
(*     with var_factor = 1 and with a len_scale dependent var_factor.      *)
(*                                                                         *)
(* Lengths in part B are integers in units of len_scale/16 ("u"); the grid *)
(* lag k/8 * len_scale is u = 2k.  Anisotropy ratios are powers of two     *)
(* given by their exponent; angles are quarter turns or Pythagorean angles *)
(* (cos, sin in {3/5, 4/5}), so every rotation matrix is rational.         *)
(***************************************************************************)
EXTENDS DeriveQ, FiniteSets

CONSTANTS
  Models,      \* part C: set of [name, opt, dim]
  VarVals, NugVals, ResVals, LenExps, KMax,   \* part C parameter lattice, lags 0..KMax (in len_scale/8)
  Dims,        \* parts B, D: dimensions
  AnisExps,    \* parts B, D: exponents of the anisotropy ratios
  Angles,      \* part B: rotation angles <<5 cos, 5 sin>>
  SpatialY,    \* part B: dim -> set of integer vectors (isotropic coordinates, units len_scale/8)
  YadK,        \* part B: sphere radii R = kR/8 * len_scale
  IntVals,     \* part D: prescribed integral scales (rationals)
  IntLenExps   \* part D: exponents of the length scale before the assignment

VARIABLES part, D, inst, pc, abstract, ev, vc, pm, tab, isc
vars == <<part, D, inst, pc, abstract, ev, vc, pm, tab, isc>>

None == <<>>

-----------------------------------------------------------------------------
(*                      A.  the derivation graph                           *)
-----------------------------------------------------------------------------
Fns == {"cor", "correlation", "covariance", "variogram"}

(* <<f, g>>: the documentation gives f in terms of g                        *)
DocIdentity == {
  <<"correlation", "cor">>,          \* correlation(r) = cor(rescale * r / len_scale)
  <<"cor", "correlation">>,          \* cor(h) = correlation(h * len_scale / rescale)
  <<"covariance", "correlation">>,   \* covariance(r) = var * correlation(r)
  <<"correlation", "covariance">>,   \*   ... solved for the correlation
  <<"variogram", "covariance">>,     \* variogram(r) = var + nugget - covariance(r)
  <<"covariance", "variogram">>,     \*   ... solved for the covariance
  <<"correlation", "variogram">> }   \* correlation(r) = 1 - (variogram(r) - nugget) / var

Idle == [fn |-> "-", at |-> "-", n |-> 0]

InitGraph ==
  /\ part = "graph"
  /\ D \in SUBSET Fns
  /\ inst = [f \in Fns |-> IF f \in D THEN "user" ELSE "missing"]
  /\ pc = "cor" /\ abstract = TRUE /\ ev = Idle
  /\ vc = None /\ pm = None /\ tab = None /\ isc = None

Has(f) == inst[f] # "missing"

(* class creation, one step per branch.  inst[f] is "user" (the class's own
   definition), the name of the function f delegates to, or "missing" *)
StepCor ==
  /\ pc = "cor" /\ pc' = "variogram"
  /\ IF Has("cor")
     THEN /\ inst' = IF Has("correlation") THEN inst ELSE [inst EXCEPT !["correlation"] = "cor"]
          /\ abstract' = FALSE
     ELSE /\ inst' = [inst EXCEPT !["cor"] = "correlation"]
          /\ abstract' = abstract
  /\ UNCHANGED <<part, D, ev, vc, pm, tab, isc>>

StepFn(f, src, nxt) ==
  /\ pc = f /\ pc' = nxt
  /\ IF Has(f)
     THEN inst' = inst /\ abstract' = FALSE
     ELSE inst' = [inst EXCEPT ![f] = src] /\ abstract' = abstract
  /\ UNCHANGED <<part, D, ev, vc, pm, tab, isc>>

StepCheck ==
  /\ pc = "check"
  /\ pc' = IF abstract THEN "rejected" ELSE "installed"     \* rejected = TypeError at class creation
  /\ UNCHANGED <<part, D, inst, abstract, ev, vc, pm, tab, isc>>

Install ==
  \/ StepCor
  \/ StepFn("variogram", "covariance", "covariance")
  \/ StepFn("covariance", "correlation", "correlation")
  \/ StepFn("correlation", "variogram", "check")
  \/ StepCheck

(* evaluation of f follows the installed delegations *)
EvalStart(f) ==
  /\ pc = "installed" /\ ev = Idle
  /\ ev' = [fn |-> f, at |-> f, n |-> 0]
  /\ UNCHANGED <<part, D, inst, pc, abstract, vc, pm, tab, isc>>

EvalStep ==
  /\ pc = "installed" /\ ev # Idle /\ inst[ev.at] \in Fns
  /\ ev' = [ev EXCEPT !.at = inst[ev.at], !.n = ev.n + 1]
  /\ UNCHANGED <<part, D, inst, pc, abstract, vc, pm, tab, isc>>

EvalDone ==
  /\ pc = "installed" /\ ev # Idle /\ inst[ev.at] = "user"
  /\ ev' = Idle
  /\ UNCHANGED <<part, D, inst, pc, abstract, vc, pm, tab, isc>>

NextGraph == Install \/ (\E f \in Fns : EvalStart(f)) \/ EvalStep \/ EvalDone

RECURSIVE Chase(_, _)
Chase(f, n) == IF inst[f] \in Fns /\ n > 0 THEN Chase(inst[f], n - 1) ELSE f
Ground(f) == Chase(f, Cardinality(Fns))

GraphTypeOK ==
  /\ D \subseteq Fns
  /\ inst \in [Fns -> Fns \cup {"user", "missing"}]
  /\ pc \in {"cor", "variogram", "covariance", "correlation", "check", "installed", "rejected"}
  /\ abstract \in BOOLEAN
(* class creation is rejected exactly for the empty subset *)
RejectIffEmpty ==
  /\ (pc = "rejected" => D = {})
  /\ (pc = "installed" => D # {})
(* the class's own definitions are never replaced *)
UserKept == \A f \in Fns : (f \in D) <=> (inst[f] = "user")
(* after installation nothing is missing and nothing delegates to itself *)
Complete == pc = "installed" => \A f \in Fns : inst[f] # "missing" /\ inst[f] # f
(* every delegation is one of the documented identities *)
DelegationsDocumented == \A f \in Fns : inst[f] \in Fns => <<f, inst[f]>> \in DocIdentity
(* every function bottoms out in a function the class defines *)
GroundedInD == pc = "installed" => \A f \in Fns : inst[Ground(f)] = "user" /\ Ground(f) \in D
(* no cyclic delegation: an evaluation takes at most |Fns| - 1 delegation steps *)
EvalTerminates == ev.n <= Cardinality(Fns) - 1
EvalGrounded == (ev # Idle /\ inst[ev.at] = "user") => (ev.at \in D /\ ev.at = Ground(ev.fn))

-----------------------------------------------------------------------------
(*                        B.  the variant rules                            *)
-----------------------------------------------------------------------------
(* A reduction says what a variant equals: a constant ("zero", "sill") or the
   plain isotropic function at lag u (units len_scale/16, signed as passed).  *)
Red(c, u) == [const |-> c, u |-> u]

(* x / 2^e on integers, defined only when exact *)
DivPow2(x, e) ==
  IF e <= 0 THEN x * IPow2(-e)
  ELSE IF x % IPow2(e) = 0 THEN x \div IPow2(e) ELSE Assert(FALSE, <<"inexact ratio", x, e>>)

(* vario_nugget / cov_nugget: differ from the plain function only at lag 0 *)
NuggetRule(fn, u) ==
  IF u = 0 THEN Red(IF fn = "variogram" THEN "zero" ELSE "sill", 0) ELSE Red("none", u)

(* f_axis(r, i) = f(|r| / anis[i-1]),  axis 0: f(r) *)
AxisRule(u, axis, es) ==
  IF axis = 0 THEN Red("none", u) ELSE Red("none", DivPow2(Abs(u), es[axis]))

(* f_yadrenko(zeta) = f(2 R sin(zeta / (2R))); zeta = t * (pi/3) * R.
   2 sin(t pi/6) is rational exactly for the listed t.                      *)
YadT == {0, 1, 3, 5}
TwiceSinSixth(t) == CASE t = 0 -> 0 [] t = 1 -> 1 [] t = 3 -> 2 [] t = 5 -> 1
YadrenkoRule(uR, t) == Red("none", uR * TwiceSinSixth(t))

(* Rotations.  An angle is a pair <<c, s>> = <<5 cos, 5 sin>> of integers with
   c^2 + s^2 = 25: the quarter turns <<5,0>>, <<0,5>>, <<-5,0>>, <<0,-5>> and the
   Pythagorean angles (<<3,4>> = atan2(4,3), ...), for which a rotation is not
   a signed permutation, so direction and order of the rotations matter.
   Every matrix is 3 x 3 (explicit tuples) with integer entries: a Givens
   rotation carries the factor 5, a full rotation the factor 125.  A model of
   dimension d < 3 is embedded: its NoAng(d) angles are the first ones of the
   3-D model (the xy plane comes first), the remaining angles are zero,
   vectors are padded with 0 and ratios with 1.
   Positions of the spatial cases are integers in units of len_scale/2000
   (= 1/125 of the unit len_scale/16 used everywhere else).                 *)
A0 == <<5, 0>>
IsAngle(a) == a[1] * a[1] + a[2] * a[2] = 25
NegA(a) == <<a[1], -a[2]>>
NoAng(d) == (d * (d - 1)) \div 2
Pad3(s, fill) == <<IF Len(s) >= 1 THEN s[1] ELSE fill, IF Len(s) >= 2 THEN s[2] ELSE fill,
                   IF Len(s) >= 3 THEN s[3] ELSE fill>>
Cut(v, d) == SubSeq(v, 1, d)
Diag3(c) == << <<c, 0, 0>>, <<0, c, 0>>, <<0, 0, c>> >>
Dot3(a, b) == a[1] * b[1] + a[2] * b[2] + a[3] * b[3]
Col3(B, j) == <<B[1][j], B[2][j], B[3][j]>>
Transpose3(B) == <<Col3(B, 1), Col3(B, 2), Col3(B, 3)>>
MatMul3(A, B) ==
  LET T == Transpose3(B)
  IN << <<Dot3(A[1], T[1]), Dot3(A[1], T[2]), Dot3(A[1], T[3])>>,
        <<Dot3(A[2], T[1]), Dot3(A[2], T[2]), Dot3(A[2], T[3])>>,
        <<Dot3(A[3], T[1]), Dot3(A[3], T[2]), Dot3(A[3], T[3])>> >>
MatVec3(A, v) == <<Dot3(A[1], v), Dot3(A[2], v), Dot3(A[3], v)>>
(* 5 x Givens rotation in the plane of the axes (a, b), a < b: entry (a,b) is -sin *)
GEntry(a, b, ang, i, j) ==
  IF (i = a /\ j = a) \/ (i = b /\ j = b) THEN ang[1]
  ELSE IF i = a /\ j = b THEN -ang[2]
  ELSE IF i = b /\ j = a THEN ang[2]
  ELSE IF i = j THEN 5 ELSE 0
Givens3(a, b, ang) ==
  << <<GEntry(a, b, ang, 1, 1), GEntry(a, b, ang, 1, 2), GEntry(a, b, ang, 1, 3)>>,
     <<GEntry(a, b, ang, 2, 1), GEntry(a, b, ang, 2, 2), GEntry(a, b, ang, 2, 3)>>,
     <<GEntry(a, b, ang, 3, 1), GEntry(a, b, ang, 3, 2), GEntry(a, b, ang, 3, 3)>> >>
(* rotation planes in the documented order xy, xz, yz; Tait-Bryan convention:
   alternating signs, the first angle is applied first.  125 x rotation matrix *)
Rotate3(qs) ==
  MatMul3(Givens3(2, 3, qs[3]), MatMul3(Givens3(1, 3, NegA(qs[2])), Givens3(1, 2, qs[1])))
(* derotation: negative angles, reverse order *)
Derotate3(qs) ==
  MatMul3(MatMul3(Givens3(1, 2, NegA(qs[1])), Givens3(1, 3, qs[2])), Givens3(2, 3, NegA(qs[3])))
Rotate(d, qs)   == Rotate3(Pad3(qs, A0))
Derotate(d, qs) == Derotate3(Pad3(qs, A0))

DivExact(x, n) == IF x % n = 0 THEN x \div n ELSE Assert(FALSE, <<"inexact division", x, n>>)

(* isotropic coordinates: derotate, then divide the transversal axes by their ratio.
   x in units len_scale/2000, result in units len_scale/16 *)
Iso(d, qs, es, x) ==
  LET z == MatVec3(Derotate(d, qs), Pad3(x, 0))          \* 125 x derotated x
      e == Pad3(es, 0)
  IN Cut(<<DivExact(z[1], 15625), DivPow2(DivExact(z[2], 15625), e[1]),
           DivPow2(DivExact(z[3], 15625), e[2])>>, d)
(* y in units len_scale/16, result in units len_scale/2000 *)
Aniso(d, qs, es, y) ==
  LET w == Pad3(y, 0)
      e == Pad3(es, 0)
  IN Cut(MatVec3(Rotate(d, qs), <<w[1], DivPow2(w[2], -e[1]), DivPow2(w[3], -e[2])>>), d)
NormSq(v, d) == Dot3(Pad3(v, 0), Pad3(v, 0))

(* f_spatial(x) = f(|Iso x|) *)
SpatialRule(d, qs, es, x) == Red("none", ExactSqrt(NormSq(Iso(d, qs, es, x), d)))

VCase(kind, fn, d, axis, es, qs, x, uR, t, red) ==
  [kind |-> kind, fn |-> fn, dim |-> d, axis |-> axis, es |-> es, qs |-> qs, x |-> x,
   uR |-> uR, t |-> t, const |-> red.const, u |-> red.u]

GridU == {2 * k : k \in 0..KMax} \cup {-2 * k : k \in 1..KMax}
Neg1(v) == [i \in 1..Len(v) |-> -v[i]]

NuggetCases(ds) == {VCase("nugget", fn, 1, 0, <<>>, <<>>, <<u>>, 0, 0, NuggetRule(fn, u)) :
                  fn \in {"variogram", "covariance"}, u \in GridU}

(* r = +-(k/8) len * anis[axis]: the transformed lag is the grid lag k *)
AxisCases(ds) == UNION {UNION {UNION {
    {VCase("axis", "any", d, axis, es, <<>>, <<DivPow2(u, IF axis = 0 THEN 0 ELSE -es[axis])>>, 0, 0,
           AxisRule(DivPow2(u, IF axis = 0 THEN 0 ELSE -es[axis]), axis, es)) : u \in GridU}
    : axis \in 0..d - 1} : es \in [1..d - 1 -> AnisExps]} : d \in ds}

YadCases(ds) == {VCase("yadrenko", "any", 3, 0, <<>>, <<>>, <<>>, 2 * kR, t, YadrenkoRule(2 * kR, t)) :
               kR \in YadK, t \in YadT}

(* positions x = Aniso(2y) (units len_scale/2000) for the isotropic vectors y supplied *)
SpatialCases(ds) == UNION {UNION {UNION {
    {LET x == Aniso(d, qs, es, [i \in 1..d |-> 2 * y[i]])
     IN VCase("spatial", "any", d, 0, es, qs, x, 0, 0, SpatialRule(d, qs, es, x)) : y \in SpatialY[d]}
    : qs \in [1..NoAng(d) -> Angles]} : es \in [1..d - 1 -> AnisExps]} : d \in ds}

InitVariant ==
  /\ part = "variant"
  /\ vc \in NuggetCases(Dims) \cup AxisCases(Dims) \cup YadCases(Dims) \cup SpatialCases(Dims)
  /\ D = None /\ inst = None /\ pc = None /\ abstract = None /\ ev = None
  /\ pm = None /\ tab = None /\ isc = None

Stutter == UNCHANGED vars

(* invariants of part B *)
NuggetOK(c) == c.kind = "nugget" =>
  /\ (c.const # "none") <=> (c.x[1] = 0)
  /\ (c.const = "none" => c.u = c.x[1])
  /\ (c.const # "none" => c.const = (IF c.fn = "variogram" THEN "zero" ELSE "sill"))
AxisOK(c) == c.kind = "axis" =>
  /\ (c.axis = 0 => c.u = c.x[1])
  /\ (c.axis > 0 => Mul(QI(c.u), Pow2(c.es[c.axis])) = QI(Abs(c.x[1])))
  /\ (c.axis > 0 => c.u >= 0)
ChordOK(c) == c.kind = "yadrenko" =>
  /\ 0 <= c.u /\ c.u <= 2 * c.uR
  /\ (c.t = 0 => c.u = 0)
  /\ (c.t = 3 => c.u = 2 * c.uR)        \* antipodal points: the diameter
  /\ (c.t = 1 => c.u = c.uR)            \* 60 degrees: equilateral triangle
SpatialOK(c) == c.kind = "spatial" =>
  LET d == c.dim
      R == Rotate(d, c.qs)
      T == Derotate(d, c.qs)
      y == Iso(d, c.qs, c.es, c.x)
  IN /\ \A i \in 1..NoAng(d) : IsAngle(c.qs[i])
     /\ MatMul3(T, R) = Diag3(15625) /\ MatMul3(R, T) = Diag3(15625)   \* derotation undoes rotation
     /\ MatMul3(R, Transpose3(R)) = Diag3(15625)                      \* orthogonal
     /\ (d < 3 => R[3] = <<0, 0, 125>> /\ Col3(R, 3) = <<0, 0, 125>>)   \* embedding of lower dimensions
     /\ (d < 2 => R = Diag3(125))
     /\ Aniso(d, c.qs, c.es, y) = c.x                              \* Iso and Aniso are inverse
     /\ IsSquare(NormSq(y, d)) /\ c.u * c.u = NormSq(y, d)
     /\ SpatialRule(d, c.qs, c.es, Neg1(c.x)).u = c.u             \* even
     /\ ((\A i \in 1..d - 1 : c.es[i] = 0) => 15625 * c.u * c.u = NormSq(c.x, d))  \* rotations keep the norm
     /\ ((\A i \in 1..NoAng(d) : c.qs[i] = A0) =>
           c.u * c.u = NormSq([i \in 1..d |-> IF i = 1 THEN DivExact(c.x[1], 125)
                                                ELSE DivPow2(DivExact(c.x[i], 125), c.es[i - 1])], d))

NuggetOnlyAtZero == NuggetOK(vc)
AxisScales       == AxisOK(vc)
ChordBounds      == ChordOK(vc)
SpatialSound     == SpatialOK(vc)

(* The length unit.  Every reduction above is stated in units of len_scale (lags and
   positions are multiples of len_scale/16 resp. len_scale/2000, the sphere radius is
   a multiple of len_scale/8): multiplying len_scale, every lag, every position and
   geo_scale by a common factor leaves the case, its transformed lag (in the new
   unit) and every function value unchanged; in particular the nugget-aware variants
   differ from the plain functions exactly at lag 0 in every unit.  The unit is a
   power of two 2^ue, so the float images of all lengths are exact.            *)
CONSTANTS UnitExps
UnitCases(ds) == NuggetCases(ds) \cup AxisCases(ds) \cup YadCases(ds) \cup SpatialCases(ds \cap {1, 2})
InitUnit ==
  /\ part = "unit"
  /\ \E e \in UnitExps, c \in UnitCases(Dims) : vc = [kind |-> "unit", ue |-> e, c |-> c]
  /\ D = None /\ inst = None /\ pc = None /\ abstract = None /\ ev = None
  /\ pm = None /\ tab = None /\ isc = None
UnitSound ==
  /\ vc.ue \in UnitExps
  /\ NuggetOK(vc.c) /\ AxisOK(vc.c) /\ ChordOK(vc.c) /\ SpatialOK(vc.c)
  (* a constant (0 / sill) replaces the plain function at lag 0 and nowhere else *)
  /\ (vc.c.const # "none") <=> (vc.c.kind = "nugget" /\ vc.c.x[1] = 0)

-----------------------------------------------------------------------------
(*                 C.  PolyCor: documented closed forms                    *)
-----------------------------------------------------------------------------
(* terminating Gauss series 2F1(1/2, -nu; 3/2; x), nu a non-negative integer:
   t_0 = 1,  t_(k+1) = t_k * (1/2 + k)(k - nu) / ((3/2 + k)(k + 1)) * x       *)
RECURSIVE HypTerm(_, _, _)
HypTerm(nu, x, k) ==
  IF k = 0 THEN One
  ELSE Mul(Mul(HypTerm(nu, x, k - 1), Q((2 * k - 1) * (k - 1 - nu), (2 * k + 1) * k)), x)
RECURSIVE HypSum(_, _, _)
HypSum(nu, x, k) == IF k < 0 THEN Zero ELSE Add(HypSum(nu, x, k - 1), HypTerm(nu, x, k))
Hyp(nu, x) == HypSum(nu, x, nu)

SphereForm(nu, h) == Sub(One, Div(Mul(h, Hyp(nu, Mul(h, h))), Hyp(nu, One)))

(* the normalised correlation cor(h), h >= 0, as documented in the class docstrings *)
CorDoc(m, h) ==
  CASE m.name = "Linear" ->
         IF Less(h, One) THEN Sub(One, h) ELSE Zero
    [] m.name = "Spherical" ->
         IF Less(h, One) THEN Add(Sub(One, Mul(Q(3, 2), h)), Mul(Q(1, 2), Pow(h, 3))) ELSE Zero
    [] m.name = "Cubic" ->
         IF Less(h, One)
         THEN Add(Sub(Add(Sub(One, Mul(QI(7), Pow(h, 2))), Mul(Q(35, 4), Pow(h, 3))),
                      Mul(Q(7, 2), Pow(h, 5))), Mul(Q(3, 4), Pow(h, 7)))
         ELSE Zero
    [] m.name = "TPLSimple" ->
         IF Less(h, One) THEN Pow(Sub(One, h), m.opt) ELSE Zero
    [] m.name = "HyperSpherical" ->     \* nu = (dim - 1)/2, polynomial for odd dim
         IF Less(h, One) THEN SphereForm((m.dim - 1) \div 2, h) ELSE Zero
    [] m.name = "SuperSpherical" ->
         IF Less(h, One) THEN SphereForm(m.opt, h) ELSE Zero
    [] m.name = "Rational" ->
         Inv(Pow(Add(One, Div(Mul(h, h), QI(m.opt))), m.opt))
    (* closed forms the generated user classes of part A are written from *)
    [] m.name = "UserLin" ->
         IF Less(h, One) THEN Sub(One, h) ELSE Zero
    [] m.name = "UserRat" ->
         Inv(Add(One, Mul(h, h)))

Compact(m) == m.name \notin {"Rational", "UserRat"}

(* admissible (dimension, shape) combinations according to the docstrings *)
Admissible(m) ==
  CASE m.name = "Linear" -> m.dim = 1
    [] m.name = "Spherical" -> m.dim <= 3
    [] m.name = "Cubic" -> m.dim <= 3
    [] m.name = "TPLSimple" -> 2 * m.opt >= m.dim + 1
    [] m.name = "HyperSpherical" -> m.dim % 2 = 1
    [] m.name = "SuperSpherical" -> 2 * m.opt >= m.dim - 1
    [] m.name = "Rational" -> 2 * m.opt >= 1
    [] m.name \in {"UserLin", "UserRat"} -> TRUE

PolyParams == [var : VarVals, nug : NugVals, res : ResVals, le : LenExps]

LagOf(p, k)  == Mul(Q(k, 8), Pow2(p.le))                    \* r = k/8 * len_scale
ArgOf(p, r)  == Div(Mul(QI(p.res), r), Pow2(p.le))          \* h = rescale * r / len_scale
Rho(m, p, r) == CorDoc(m, ArgOf(p, r))                      \* documented correlation
Cov(m, p, r) == Mul(QI(p.var), Rho(m, p, r))                \* documented covariance
Gam(m, p, r) == Add(Mul(QI(p.var), Sub(One, Rho(m, p, r))), QI(p.nug))   \* documented variogram

Row(m, p, k) ==
  LET r == LagOf(p, k)
  IN [k |-> k, r |-> r, h |-> ArgOf(p, r), cor |-> CorDoc(m, ArgOf(p, r)),
      correlation |-> Rho(m, p, r), covariance |-> Cov(m, p, r), variogram |-> Gam(m, p, r)]

InitPoly ==
  /\ part = "poly"
  /\ pm \in {[m |-> m, p |-> p] : m \in Models, p \in PolyParams}
  /\ tab = [i \in 1..KMax + 1 |-> Row(pm.m, pm.p, i - 1)]
  /\ D = None /\ inst = None /\ pc = None /\ abstract = None /\ ev = None
  /\ vc = None /\ isc = None

Rows == 1..KMax + 1
PolyTypeOK == /\ Admissible(pm.m)
              /\ \A i \in Rows : IsQ(tab[i].cor) /\ IsQ(tab[i].covariance) /\ IsQ(tab[i].variogram)
(* the identities of the property statement *)
PolyIdentities == \A i \in Rows :
  /\ tab[i].variogram = Sub(Add(QI(pm.p.var), QI(pm.p.nug)), tab[i].covariance)
  /\ tab[i].covariance = Mul(QI(pm.p.var), tab[i].correlation)
  /\ tab[i].correlation = CorDoc(pm.m, Div(Mul(QI(pm.p.res), tab[i].r), Pow2(pm.p.le)))
  /\ tab[i].correlation = tab[i].cor
(* the functions depend on the lag only through r / len_scale: the same row for every length scale of the lattice *)
PolyUnitFree == \A i \in Rows : \A le2 \in LenExps :
  LET q == Row(pm.m, [pm.p EXCEPT !.le = le2], i - 1)
  IN /\ q.h = tab[i].h /\ q.cor = tab[i].cor /\ q.correlation = tab[i].correlation
     /\ q.covariance = tab[i].covariance /\ q.variogram = tab[i].variogram
     /\ q.r = Mul(tab[i].r, Pow2(le2 - pm.p.le))
CorAtZero == /\ tab[1].r = Zero /\ tab[1].cor = One /\ tab[1].correlation = One
             /\ tab[1].covariance = QI(pm.p.var) /\ tab[1].variogram = QI(pm.p.nug)
Monotone == \A i \in Rows : i > 1 => Leq(tab[i].correlation, tab[i - 1].correlation)
Bounded  == \A i \in Rows : Leq(Zero, tab[i].correlation) /\ Leq(tab[i].correlation, One)
(* compact support: zero from the range len_scale/rescale on, positive inside *)
Support == \A i \in Rows :
  IF Compact(pm.m)
  THEN (tab[i].correlation = Zero) <=> Leq(One, tab[i].h)
  ELSE Less(Zero, tab[i].correlation)
SillBeyondRange == \A i \in Rows :
  (Compact(pm.m) /\ Leq(One, tab[i].h)) => tab[i].variogram = QI(pm.p.var + pm.p.nug)
(* documented coincidences between the families *)
WithName(m, n, o) == [name |-> n, opt |-> o, dim |-> m.dim]
Coincidences == \A i \in Rows : LET h == tab[i].h c == tab[i].cor m == pm.m IN
  /\ (m.name = "HyperSpherical" /\ m.dim = 1 => c = CorDoc(WithName(m, "Linear", 0), h))
  /\ (m.name = "HyperSpherical" /\ m.dim = 3 => c = CorDoc(WithName(m, "Spherical", 0), h))
  /\ (m.name = "SuperSpherical" /\ m.opt = 0 => c = CorDoc(WithName(m, "Linear", 0), h))
  /\ (m.name = "SuperSpherical" /\ m.opt = 1 => c = CorDoc(WithName(m, "Spherical", 0), h))
  /\ (m.name = "TPLSimple" /\ m.opt = 1 => c = CorDoc(WithName(m, "Linear", 0), h))

-----------------------------------------------------------------------------
(*               D.  prescribing the integral scale                        *)
-----------------------------------------------------------------------------
(* The integral scale is proportional to the length scale: int = kappa * len
   with kappa the integral scale of the unit model.  Assigning I (scalar or
   list) makes the main integral scale I[1]; a list with at least two entries
   (in dim > 1) redefines the anisotropy ratios, too short lists are continued
   with their last entry, too long ones are cut.                             *)
SeqsOf(S, lo, hi) == UNION {[1..n -> S] : n \in lo..hi}
Take(s, n) == IF Len(s) <= n THEN s ELSE SubSeq(s, 1, n)

IntEffectQ(d, an0, I) ==      \* an0: the ratios before the assignment (rationals)
  LET t    == Take(I, d)
      full == [i \in 1..d |-> IF i <= Len(t) THEN t[i] ELSE t[Len(t)]]
      an   == IF Len(t) = 1 THEN an0
              ELSE [i \in 1..d - 1 |-> Div(full[i + 1], full[1])]
  IN [int |-> full[1], anis |-> an, lenk |-> full[1],
      vec |-> [i \in 1..d |-> IF i = 1 THEN full[1] ELSE Mul(full[1], an[i - 1])]]
IntEffect(d, es0, I) == IntEffectQ(d, [i \in 1..d - 1 |-> Pow2(es0[i])], I)

InitInt ==
  /\ part = "intscale"
  /\ \E d \in Dims, le0 \in IntLenExps, form \in {"setter", "ctor"} :
     \E es0 \in [1..d - 1 -> AnisExps], I \in SeqsOf(IntVals, 1, 3) :
       LET e == IntEffect(d, es0, I)
       IN isc = [dim |-> d, le0 |-> le0, es0 |-> es0, form |-> form, I |-> I,
                 int |-> e.int, anis |-> e.anis, lenk |-> e.lenk, vec |-> e.vec]
  /\ D = None /\ inst = None /\ pc = None /\ abstract = None /\ ev = None
  /\ vc = None /\ pm = None /\ tab = None

IntSound ==
  /\ isc.int = isc.I[1] /\ isc.vec[1] = isc.I[1] /\ isc.lenk = isc.I[1]
  /\ Len(isc.anis) = isc.dim - 1 /\ Len(isc.vec) = isc.dim
  (* a list prescribes the integral scale of every direction it names *)
  /\ (Len(isc.I) >= 2 /\ isc.dim >= 2 =>
        \A i \in 1..isc.dim : isc.vec[i] = (IF i <= Len(isc.I) THEN isc.I[i] ELSE isc.I[Len(isc.I)]))
  (* a scalar (or a one-element list, or any list in 1-D) keeps the ratios *)
  /\ (Len(isc.I) = 1 \/ isc.dim = 1 => \A i \in 1..isc.dim - 1 : isc.anis[i] = Pow2(isc.es0[i]))
  /\ \A i \in 1..isc.dim - 1 : Less(Zero, isc.anis[i])

-----------------------------------------------------------------------------
(*      E.  the integral scale along a history of assignments              *)
-----------------------------------------------------------------------------
(* One model object, a sequence of public assignments.  The reported integral
   scale must be the one of the *current* parameters after every step:
       integral_scale = kappa(opt) * len_scale / rescale
   kappa(opt) = integral scale of the unit model (len_scale = rescale = 1) with
   the current shape parameter.  kappa is transcendental, so the length scale
   is kept symbolically as  len.q / kappa(len.o)  (len.o = 0: kappa := 1; it is
   set by prescribing the integral scale while the shape index was len.o).
   Hence  integral_scale = HIntQ * kappa(opt) / kappa(len.o),  and it is the
   exact rational HIntQ whenever len.o = opt.                                *)
CONSTANTS HistDims, HistLens, HistRes, HistOpts, HistInts, HistMaxSteps

HOp(name, v) == [name |-> name, v |-> v]
Ones(n) == [i \in 1..n |-> One]
FitAnis(d, s) == LET t == Take(s, d - 1) IN Ones(d - 1 - Len(t)) \o t   \* cut right, pad left with 1
InitAnis(d) == [i \in 1..d - 1 |-> IF i = 1 THEN <<2, 1>> ELSE <<1, 2>>]

(* the observables: integral_scale = intq * kappa(opt) / kappa(len.o), and per direction *)
HIntQ(s) == Div(s.len.q, s.res)
HVec(s)  == [i \in 1..s.dim |-> IF i = 1 THEN HIntQ(s) ELSE Mul(HIntQ(s), s.anis[i - 1])]
WithObs(s) == [s EXCEPT !.intq = HIntQ(s), !.vec = HVec(s)]

InitHist ==
  /\ part = "inthist"
  /\ \E d \in HistDims, l \in HistLens, r \in HistRes :
       isc = WithObs([dim |-> d, len |-> [q |-> l, o |-> 0], res |-> r, anis |-> InitAnis(d), opt |-> 1,
                      n |-> 0, op |-> HOp("Init", <<>>), intq |-> Zero, vec |-> <<>>])
  /\ D = None /\ inst = None /\ pc = None /\ abstract = None /\ ev = None
  /\ vc = None /\ pm = None /\ tab = None

HStep(new) == /\ isc.n < HistMaxSteps
              /\ isc' = WithObs([new EXCEPT !.n = isc.n + 1])
              /\ UNCHANGED <<part, D, inst, pc, abstract, ev, vc, pm, tab>>

HSetLen(l) == l # isc.len.q /\ HStep([isc EXCEPT !.len = [q |-> l, o |-> 0], !.op = HOp("SetLen", <<l>>)])
HSetRes(r) == r # isc.res /\ HStep([isc EXCEPT !.res = r, !.op = HOp("SetRescale", <<r>>)])
HSetOpt(o) == o # isc.opt /\ HStep([isc EXCEPT !.opt = o, !.op = HOp("SetOpt", <<QI(o)>>)])
HSetDim(d) == d # isc.dim /\ HStep([isc EXCEPT !.dim = d, !.anis = FitAnis(d, isc.anis),
                                               !.op = HOp("SetDim", <<QI(d)>>)])
(* prescribing the integral scale: len_scale = I * rescale / kappa(opt) *)
HSetInt(I) == LET e == IntEffectQ(isc.dim, isc.anis, I)
              IN HStep([isc EXCEPT !.len = [q |-> Mul(e.int, isc.res), o |-> isc.opt], !.anis = e.anis,
                                   !.op = HOp("SetInt", I)])

NextHist ==
  \/ \E l \in HistLens : HSetLen(l)
  \/ \E r \in HistRes : HSetRes(r)
  \/ \E o \in HistOpts : HSetOpt(o)
  \/ \E d \in HistDims : HSetDim(d)
  \/ \E I \in HistInts : HSetInt(I)

HistTypeOK == /\ Len(isc.anis) = isc.dim - 1
              /\ IsQ(isc.len.q) /\ Less(Zero, isc.len.q) /\ Less(Zero, isc.res)
              /\ \A i \in 1..isc.dim - 1 : Less(Zero, isc.anis[i])
              /\ isc.intq = HIntQ(isc) /\ isc.vec = HVec(isc) /\ Len(isc.vec) = isc.dim
(* right after prescribing I the integral scale is I, exactly, in every direction named *)
HistPrescribed == isc.op.name = "SetInt" =>
  /\ isc.len.o = isc.opt /\ HIntQ(isc) = isc.op.v[1]
  /\ (Len(isc.op.v) >= 2 /\ isc.dim >= 2 =>
        \A i \in 1..isc.dim : HVec(isc)[i] = (IF i <= Len(isc.op.v) THEN isc.op.v[i] ELSE isc.op.v[Len(isc.op.v)]))
(* every other assignment changes only what it names; the integral scale follows
   len_scale / rescale (action property) *)
HistCoupling == [][
  /\ (isc'.op.name = "SetRescale" => isc'.len = isc.len /\ isc'.anis = isc.anis /\ isc'.opt = isc.opt
                                     /\ Mul(HIntQ(isc'), isc'.res) = Mul(HIntQ(isc), isc.res))
  /\ (isc'.op.name = "SetLen" => isc'.res = isc.res /\ isc'.anis = isc.anis /\ isc'.opt = isc.opt)
  /\ (isc'.op.name = "SetOpt" => isc'.len = isc.len /\ isc'.res = isc.res /\ isc'.anis = isc.anis)
  /\ (isc'.op.name = "SetDim" => isc'.len = isc.len /\ isc'.res = isc.res /\ isc'.opt = isc.opt
                                 /\ HIntQ(isc') = HIntQ(isc))
  /\ (isc'.op.name = "SetInt" => isc'.res = isc.res /\ isc'.opt = isc.opt)
  ]_isc

-----------------------------------------------------------------------------
(*      F.  truncated power law: the documented superposition              *)
-----------------------------------------------------------------------------
(* TPLGaussian / TPLExponential / TPLStable: the model with lower truncation
   len_low = a, len_scale = L, rescale = s, Hurst coefficient H is the
   superposition of modes on the scales between
        ll = a / s   and   lu = (a + L) / s
   with the positive weight lambda^(2H-1).  With rho0(r; l) the correlation of
   the model without lower truncation and (rescaled) upper scale l, the
   documented closed form is
     rho(r) = wup * rho0(r; lu) - wlow * rho0(r; ll),
     wup = lu^2H / (lu^2H - ll^2H),  wlow = ll^2H / (lu^2H - ll^2H),
   rho0(r; l) = cor(r / l), the variance factor is (lu^2H - ll^2H) / (2H), and,
   being an average of the modes exp(-(r/lambda)^alpha), ll <= lambda <= lu,
     mode(r; ll) <= rho(r) <= mode(r; lu)         (mode(r; 0) = 0 for r > 0).
   The weights are exact rationals on the lattice used (2H in {1, 1/2, 3/2},
   scales whose square roots are rational where needed).                    *)
CONSTANTS TplLow, TplLen, TplRes, TplH2

QSquare(x) == IsSquare(x[1]) /\ IsSquare(x[2])
QSqrt(x)   == <<ExactSqrt(x[1]), ExactSqrt(x[2])>>
(* x^(p/2) for h2 = <<p, 2>> or x^p for h2 = <<p, 1>> *)
PowH2Defined(x, h2) == h2[2] = 1 \/ QSquare(x)
PowH2(x, h2) == IF h2[2] = 1 THEN Pow(x, h2[1]) ELSE Pow(QSqrt(x), h2[1])

TplCase(a, L, s, h2) ==
  LET ll == Div(a, s)
      lu == Div(Add(a, L), s)
      pl == PowH2(ll, h2)
      pu == PowH2(lu, h2)
      dn == Sub(pu, pl)
  IN [kind |-> "tpl", a |-> a, L |-> L, s |-> s, h2 |-> h2, ll |-> ll, lu |-> lu,
      wup |-> Div(pu, dn), wlow |-> Div(pl, dn), vf |-> Div(dn, h2)]

InitTpl ==
  /\ part = "tpl"
  /\ \E a \in TplLow, L \in TplLen, s \in TplRes, h2 \in TplH2 :
       /\ PowH2Defined(Div(a, s), h2) /\ PowH2Defined(Div(Add(a, L), s), h2)
       /\ vc = TplCase(a, L, s, h2)
  /\ D = None /\ inst = None /\ pc = None /\ abstract = None /\ ev = None
  /\ pm = None /\ tab = None /\ isc = None

TplSound ==
  /\ Sub(vc.wup, vc.wlow) = One                      \* the weights of a normalised average
  /\ Less(Zero, vc.wup) /\ Leq(Zero, vc.wlow)
  /\ Less(vc.ll, vc.lu) /\ Sub(vc.lu, vc.ll) = Div(vc.L, vc.s)   \* len_scale = integration range
  /\ (vc.a = Zero => vc.wlow = Zero /\ vc.wup = One /\ vc.lu = Div(vc.L, vc.s))   \* plain identity
  /\ Less(Zero, vc.vf)
  /\ (vc.h2 = One => vc.vf = Div(vc.L, vc.s))        \* H = 1/2: variance factor len_scale / rescale

-----------------------------------------------------------------------------
(*      G.  Matern with half-integer shape: exponential times polynomial   *)
-----------------------------------------------------------------------------
(* The documented Matern correlation  2^(1-nu)/Gamma(nu) * z^nu * K_nu(z),
   z = sqrt(nu) * rescale * r / len_scale,  reduces for nu = p + 1/2 to
       rho = exp(-z) * P_p(z),
       P_p(z) = p!/(2p)! * SUM_{i=0..p} (p+i)! / (i! (p-i)!) * (2z)^(p-i)
   (P_0 = 1: the Exponential model at the lag z; P_1 = 1 + z; P_2 = 1 + z + z^2/3).
   P_p(z) is an exact rational on rational z; exp(-z) is supplied on replay by
   the Exponential model, so the Matern functions at r = z * len_scale /
   (rescale * sqrt(nu)) are decided as relations between implementation
   outputs with TLC's rational factor.  Note the argument sqrt(nu) * h of the
   documentation (not the sqrt(2 nu) * h of other parametrisations).         *)
CONSTANTS HalfP, HalfZ

RECURSIVE Fact(_)
Fact(n) == IF n <= 1 THEN 1 ELSE n * Fact(n - 1)
RECURSIVE MPSum(_, _, _)
MPSum(p, z, i) ==
  IF i > p THEN Zero
  ELSE Add(Mul(Q(Fact(p + i), Fact(i) * Fact(p - i)), Pow(Mul(QI(2), z), p - i)), MPSum(p, z, i + 1))
MaternPoly(p, z) == Mul(Q(Fact(p), Fact(2 * p)), MPSum(p, z, 0))

InitHalf ==
  /\ part = "maternhalf"
  /\ \E p \in HalfP, z \in HalfZ :
       vc = [kind |-> "maternhalf", p |-> p, nu |-> Q(2 * p + 1, 2), z |-> z, poly |-> MaternPoly(p, z)]
  /\ D = None /\ inst = None /\ pc = None /\ abstract = None /\ ev = None
  /\ pm = None /\ tab = None /\ isc = None

HalfSound ==
  /\ IsQ(vc.poly) /\ Leq(One, vc.poly)
  /\ (vc.z = Zero => vc.poly = One)                           \* rho(0) = 1
  /\ (vc.p = 0 => vc.poly = One)                              \* nu = 1/2: the Exponential model
  /\ (vc.p = 1 => vc.poly = Add(One, vc.z))
  /\ (vc.p = 2 => vc.poly = Add(Add(One, vc.z), Div(Mul(vc.z, vc.z), QI(3))))
  (* three-term recurrence of the (reverse Bessel) polynomials, an independent derivation *)
  /\ (vc.p >= 2 => vc.poly = Add(MaternPoly(vc.p - 1, vc.z),
                                 Mul(Div(Mul(vc.z, vc.z), QI((2 * vc.p - 1) * (2 * vc.p - 3))),
                                     MaternPoly(vc.p - 2, vc.z))))

-----------------------------------------------------------------------------
(*      H.  the spellings of a construction                                *)
-----------------------------------------------------------------------------
(* A model can be constructed by giving the variance as  var  or  var_raw,
   the scale as  len_scale, a scalar  integral_scale  or a list of integral
   scales, with the rescale factor given or omitted.  Whatever the spelling,
       var = var_raw * var_factor(final parameters),
   a variance given as  var  IS the variance (covariance(0) = var, sill and
   the far tail of the variogram = var + nugget), and a prescribed integral
   scale is the reported one.  Families:
     "unit"  var_factor = 1                               (the standard models)
     "tpl"   var_factor = len_scale / rescale             (TPL models, H = 1/2, len_low = 0)
     "user"  var_factor = 2 * len_scale / rescale         (a user model overriding var_factor)
   A quantity that depends on a prescribed integral scale involves
   kappa = integral scale of the model with len_scale = 1 and the same
   rescale spelling (transcendental): it is kept as  q * kappa^k.
   For the var_factor families an omitted rescale is 1 (their default).     *)
CONSTANTS CFams, CVars, CNugs, CLens, CInts, CRes, CDims    \* CRes: rationals, <<0,1>> = rescale omitted

SymQ(q, k) == [q |-> q, k |-> k]
SymMul(a, b) == SymQ(Mul(a.q, b.q), a.k + b.k)
SymInv(a) == SymQ(Inv(a.q), -a.k)

CtorCase(fam, vs, v, n, ls, L, I, r, d) ==
  LET res == IF r = Zero THEN One ELSE r
      an0 == InitAnis(d)
      eff == IF ls = "len" THEN [int |-> Zero, anis |-> an0, vec |-> <<>>] ELSE IntEffectQ(d, an0, I)
      len == IF ls = "len" THEN SymQ(L, 0) ELSE SymQ(eff.int, -1)      \* int = kappa * len
      vf  == CASE fam = "unit" -> SymQ(One, 0)
               [] fam = "tpl"  -> SymQ(Div(len.q, res), len.k)
               [] fam = "user" -> SymQ(Mul(QI(2), Div(len.q, res)), len.k)
      var == IF vs = "var" THEN SymQ(v, 0) ELSE SymMul(SymQ(v, 0), vf)
      raw == IF vs = "var_raw" THEN SymQ(v, 0) ELSE SymMul(SymQ(v, 0), SymInv(vf))
  IN [kind |-> "ctor", fam |-> fam, vs |-> vs, v |-> v, nug |-> n, ls |-> ls, L |-> L, I |-> I, r |-> r,
      dim |-> d, an0 |-> an0, len |-> len, vf |-> vf, var |-> var, raw |-> raw,
      anis |-> eff.anis, int |-> eff.int, vec |-> eff.vec]

InitCtor ==
  /\ part = "ctor"
  /\ \E fam \in CFams, vs \in {"var", "var_raw"}, v \in CVars, n \in CNugs, r \in CRes, d \in CDims :
       \/ \E L \in CLens : vc = CtorCase(fam, vs, v, n, "len", L, <<>>, r, d)
       \/ \E L \in CLens, I \in CInts :
            vc = CtorCase(fam, vs, v, n, IF Len(I) = 1 THEN "int" ELSE "intlist", L, I, r, d)
  /\ D = None /\ inst = None /\ pc = None /\ abstract = None /\ ev = None
  /\ pm = None /\ tab = None /\ isc = None

CtorSound ==
  /\ vc.var = SymMul(vc.raw, vc.vf)                            \* var = var_raw * var_factor
  /\ (vc.vs = "var" => vc.var = SymQ(vc.v, 0))                 \* the prescribed variance is the variance,
  /\ (vc.vs = "var_raw" => vc.raw = SymQ(vc.v, 0))             \*   however the scale was spelled
  /\ (vc.fam = "unit" => vc.var = SymQ(vc.v, 0) /\ vc.raw = SymQ(vc.v, 0))
  /\ Less(Zero, vc.var.q) /\ Less(Zero, vc.raw.q) /\ Less(Zero, vc.len.q)
  /\ (vc.ls = "len" => vc.len = SymQ(vc.L, 0) /\ vc.anis = vc.an0)
  /\ (vc.ls # "len" => vc.int = vc.I[1] /\ vc.len = SymQ(vc.I[1], -1) /\ vc.vec[1] = vc.I[1])   \* L is ignored
  /\ (vc.ls = "int" => vc.anis = vc.an0)
  /\ (vc.ls = "intlist" /\ vc.dim >= 2 =>
        \A i \in 1..vc.dim : vc.vec[i] = (IF i <= Len(vc.I) THEN vc.I[i] ELSE vc.I[Len(vc.I)]))
  /\ Len(vc.anis) = vc.dim - 1
=============================================================================
