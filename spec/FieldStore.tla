----------------------------- MODULE FieldStore -----------------------------
(***************************************************************************)
(* The storage discipline of a gstools Field object (Field, SRF, Krige,    *)
(* CondSRF share it through Field.post_field / set_pos / __getitem__ /     *)
(* __delitem__ / get_store_config).  It is the sequential machine that the *)
(* properties C07 (stored kriging results), C11 (the storage name is not   *)
(* observable in the values) and C20 (storing under a new name never       *)
(* alters what was stored or returned earlier) lean on.                    *)
(*                                                                         *)
(* State: the position in force (`pos`, 0 = none yet; a token stands for   *)
(* coordinate tuple AND mesh type), the ordered list of stored names       *)
(* (`names` = field_names) and, per name, WHICH computation produced the   *)
(* array stored there (`val[n]` = number of the producing call, 0 =        *)
(* nothing stored).  Every computing call gets the next number, so "an     *)
(* earlier result was altered" is visible as a wrong number under a name.  *)
(*                                                                         *)
(* Modelled as the code behaves, deviations from the obvious ideal named:  *)
(*  D1  a call refused because of an invalid storage name has already      *)
(*      moved the object to the new position (stored fields deleted);      *)
(*  D2  deleting a list of names stops at the first missing name, the      *)
(*      names before it are gone;                                          *)
(*  D3  `del obj[[i, j]]` (list of indices, accepted by __getitem__) is    *)
(*      refused by __delitem__ with KeyError.                              *)
(* None of the three contradicts a listed property; they are recorded so   *)
(* that the replay can follow the code through them.                       *)
(***************************************************************************)
EXTENDS Integers, Sequences, FiniteSets, TLC

CONSTANTS GoodNames,   \* identifiers usable as storage names ("field" is the default name)
          BadNames,    \* names that must be refused: not an identifier, or an attribute of the object
          PosToks,     \* position tokens
          MaxCalls     \* bound on the number of computing calls

VARIABLES pos, names, val, ncall, status, op

vars == <<pos, names, val, ncall, status, op>>

Keep == 0
Default == "field"
Empty == [n \in GoodNames |-> 0]
ToSet(s) == {s[i] : i \in 1..Len(s)}
Remove(s, n) == SelectSeq(s, LAMBDA x : x # n)

Init == /\ pos = 0 /\ names = <<>> /\ val = Empty /\ ncall = 0
        /\ status = "Ok" /\ op = [name |-> "Init"]

(* obj(pos = p | None, store = st): st = "none" (False), a good name (True = "field"), a bad name *)
Call(p, st) ==
  /\ ncall < MaxCalls
  /\ (p = Keep => pos # 0)
  /\ LET moved == p # Keep /\ p # pos
         n0 == IF moved THEN <<>> ELSE names
         v0 == IF moved THEN Empty ELSE val
     IN /\ pos' = IF p = Keep THEN pos ELSE p
        /\ ncall' = ncall + 1
        /\ IF st \in BadNames
           THEN /\ status' = "Refused" /\ names' = n0 /\ val' = v0                    \* D1
           ELSE /\ status' = "Ok"
                /\ IF st = "none" THEN names' = n0 /\ val' = v0
                   ELSE /\ names' = IF st \in ToSet(n0) THEN n0 ELSE Append(n0, st)
                        /\ val' = [v0 EXCEPT ![st] = ncall + 1]
  /\ op' = [name |-> "Call", p |-> p, st |-> st, id |-> ncall + 1]

(* obj.set_pos(p) *)
SetPos(p) ==
  /\ pos' = p /\ status' = "Ok"
  /\ IF p # pos THEN names' = <<>> /\ val' = Empty ELSE UNCHANGED <<names, val>>
  /\ UNCHANGED ncall
  /\ op' = [name |-> "SetPos", p |-> p]

(* sequential deletion of a list of names (D2) *)
RECURSIVE DelRun(_, _, _, _)
DelRun(ns, v, sel, i) ==
  IF i > Len(sel) THEN [names |-> ns, val |-> v, ok |-> TRUE]
  ELSE IF sel[i] \notin ToSet(ns) THEN [names |-> ns, val |-> v, ok |-> FALSE]
  ELSE DelRun(Remove(ns, sel[i]), [v EXCEPT ![sel[i]] = 0], sel, i + 1)

(* obj.delete_fields() / del obj.field_names / obj.delete_fields(<name>) / (<list of names>) / del obj[<name>] *)
Delete(form, sel) ==
  /\ LET s == IF form = "all" THEN names ELSE sel
         r == DelRun(names, val, s, 1)
     IN names' = r.names /\ val' = r.val /\ status' = IF r.ok THEN "Ok" ELSE "Refused"
  /\ UNCHANGED <<pos, ncall>>
  /\ op' = [name |-> "Delete", form |-> form, sel |-> sel]

(* del obj[i]  (index into field_names; out of range: IndexError) *)
DeleteIdx(i) ==
  /\ IF i < Len(names)
     THEN /\ names' = Remove(names, names[i + 1]) /\ val' = [val EXCEPT ![names[i + 1]] = 0] /\ status' = "Ok"
     ELSE /\ UNCHANGED <<names, val>> /\ status' = "Refused"
  /\ UNCHANGED <<pos, ncall>>
  /\ op' = [name |-> "DeleteIdx", i |-> i]

(* del obj[[i]]: refused (D3) *)
DeleteIdxList(i) ==
  /\ status' = "Refused" /\ UNCHANGED <<pos, names, val, ncall>>
  /\ op' = [name |-> "DeleteIdxList", i |-> i]

(* obj[<name>] / obj[i] / obj[[names]] / obj.all_fields / name in obj / len(obj): pure reads; the
   expected answer is written into op *)
Read(form, sel, i) ==
  /\ UNCHANGED <<pos, names, val, ncall>>
  /\ LET ok == CASE form = "name" -> sel[1] \in ToSet(names)
                 [] form = "list" -> \A k \in 1..Len(sel) : sel[k] \in ToSet(names)
                 [] form = "idx"  -> i < Len(names)
                 [] OTHER -> TRUE
         ans == CASE form = "name" /\ ok -> <<val[sel[1]]>>
                  [] form = "list" /\ ok -> [k \in 1..Len(sel) |-> val[sel[k]]]
                  [] form = "idx" /\ ok  -> <<val[names[i + 1]]>>
                  [] form = "all"        -> [k \in 1..Len(names) |-> val[names[k]]]
                  [] OTHER -> <<>>
     IN /\ status' = IF ok THEN "Ok" ELSE "Refused"
        /\ op' = [name |-> "Read", form |-> form, sel |-> sel, i |-> i, ans |-> ans]

(* obj.transform("function", field = src, store = True ("same") | name | False ("none")) *)
Transform(src, st) ==
  /\ ncall < MaxCalls
  /\ UNCHANGED pos
  /\ IF src \notin ToSet(names) \/ st \in BadNames
     THEN /\ status' = "Refused" /\ UNCHANGED <<names, val, ncall>>
     ELSE /\ status' = "Ok" /\ ncall' = ncall + 1
          /\ LET dest == IF st = "same" THEN src ELSE st
             IN IF st = "none" THEN UNCHANGED <<names, val>>
                ELSE /\ names' = IF dest \in ToSet(names) THEN names ELSE Append(names, dest)
                     /\ val' = [val EXCEPT ![dest] = ncall + 1]
  /\ op' = [name |-> "Transform", src |-> src, st |-> st, id |-> ncall + 1]

Sels == {<<a>> : a \in GoodNames} \cup {<<a, b>> : a \in GoodNames, b \in GoodNames}

Next ==
  \/ \E p \in PosToks \cup {Keep}, st \in GoodNames \cup BadNames \cup {"none"} : Call(p, st)
  \/ \E p \in PosToks : SetPos(p)
  \/ Delete("all", <<>>) \/ \E s \in Sels : Delete("sel", s)
  \/ \E i \in 0..2 : DeleteIdx(i) \/ DeleteIdxList(i)
  \/ \E s \in Sels : Read(IF Len(s) = 1 THEN "name" ELSE "list", s, 0)
  \/ \E i \in 0..2 : Read("idx", <<>>, i)
  \/ Read("all", <<>>, 0)
  \/ \E src \in GoodNames, st \in GoodNames \cup BadNames \cup {"same", "none"} : Transform(src, st)

Spec == Init /\ [][Next]_vars

-----------------------------------------------------------------------------
(* field_names lists exactly the names something is stored under, once each *)
NamesMatch == /\ ToSet(names) = {n \in GoodNames : val[n] # 0}
              /\ Cardinality(ToSet(names)) = Len(names)
(* every stored array is the result of one computing call, no two names share a result *)
Provenance == \A a, b \in GoodNames : (a # b /\ val[a] # 0) => val[a] # val[b]
(* storing under a name never alters what is stored under another name; nothing but a change of
   position, a deletion or storing under the same name removes or replaces a stored result *)
OthersUntouched ==
  [][\A n \in GoodNames :
       (val'[n] # val[n]) =>
          \/ op'.name \in {"Delete", "DeleteIdx"}
          \/ op'.name \in {"Call", "SetPos"} /\ pos' # pos                 \* moved: everything deleted
          \/ op'.name = "Call" /\ op'.st = n
          \/ op'.name = "Transform" /\ (op'.st = n \/ (op'.st = "same" /\ op'.src = n))]_vars
(* a refused request stores nothing *)
RefusedStoresNothing ==
  [][status' = "Refused" => \A n \in GoodNames : val'[n] = val[n] \/ val'[n] = 0]_vars

=============================================================================
