--------------------------- MODULE GeometrySphere ---------------------------
(***************************************************************************)
(* Geographic (lat-lon) and spatio-temporal coordinates of GSTools         *)
(* (property C13), exact on lattices where no transcendental value is      *)
(* needed:                                                                 *)
(*                                                                         *)
(*  "ll"  conversion lat-lon(-time) <-> 3-D(+time) on the octahedral       *)
(*        lattice (lat, lon multiples of 90 degrees: unit vectors in       *)
(*        {-1,0,1}^3), sphere radius 2^r, time divided by the last         *)
(*        anisotropy ratio 2^te only.                                      *)
(*  "gc"  great-circle distance in integer degrees for the families where  *)
(*        it is an exact integer: two points on a common great circle that *)
(*        is the equator or a meridian circle (lon0 and lon0+180 with both *)
(*        poles), or a point of the equator that is a pole of the meridian *)
(*        circle of the other point (distance 90).  Any integer longitude  *)
(*        (outside [-180,180], across the date line) is allowed.  For a    *)
(*        set of points it gives the histogram by integer distance with    *)
(*        the pair count and the sum of squared value differences.         *)
(*  "oct" the 24 rotations of the octahedron (signed permutation matrices  *)
(*        of determinant +1) acting on points of the three coordinate      *)
(*        great circles (equator, meridian circles of lon 0 and lon 90)    *)
(*        given by integer degrees: the image is again such a point.       *)
(*  "st"  sets of space-time points on the octahedral lattice: isometric   *)
(*        positions and exact squared distances between them.              *)
(***************************************************************************)
EXTENDS Integers, Sequences, FiniteSets, TLC

CONSTANTS
  Mode,       \* "ll" | "gc" | "oct" | "st"
  Lats, Lons, \* "ll": lattice latitudes (subset of {-90,0,90}) and longitudes (multiples of 90)
  Times,      \* "ll": integer times
  RadExp,     \* "ll": set of exponents r, sphere radius 2^r
  TimeExp,    \* "ll": set of exponents te, time ratio 2^te
  PointSets,  \* "gc"/"oct": sequence of point sets, each a sequence of <<lat, lon>> (integer degrees)
  Values,     \* "gc": sequence (same shape) of integer field values
  AutoBins,   \* "gc": sequence of <<Mnum, Mden, B>>: B equal bins on [0, Mnum/Mden] degrees (automatic
              \*       binning with a user cut-off length max_dist and bin number bin_no)
  STSets      \* "st": sequence of records [r, te, pts: sequence of <<lat, lon, t>>]

VARIABLES cfg, out
vars == <<cfg, out>>

-----------------------------------------------------------------------------
Abs(x) == IF x < 0 THEN -x ELSE x
RECURSIVE GCD(_, _)
GCD(a, b) == IF b = 0 THEN a ELSE GCD(b, a % b)
RNorm(n, d) == IF n = 0 THEN <<0, 1>> ELSE LET g == GCD(Abs(n), d) IN <<n \div g, d \div g>>
RMul(a, b) == RNorm(a[1] * b[1], a[2] * b[2])
RAdd(a, b) == RNorm(a[1] * b[2] + b[1] * a[2], a[2] * b[2])
RECURSIVE Pow2N(_)
Pow2N(e)   == IF e = 0 THEN 1 ELSE 2 * Pow2N(e - 1)
Pow2(e)    == IF e >= 0 THEN <<Pow2N(e), 1>> ELSE <<1, Pow2N(-e)>>
RInv(a)    == IF a[1] > 0 THEN <<a[2], a[1]>> ELSE <<-a[2], -a[1]>>
Exact(a, u) == IF (u * a[1]) % a[2] = 0 THEN (u * a[1]) \div a[2]
               ELSE Assert(FALSE, <<"not a multiple of 1/u", a, u>>)
RECURSIVE ISum(_, _)
ISum(f, n) == IF n = 0 THEN 0 ELSE f[n] + ISum(f, n - 1)
RECURSIVE RSum(_, _)
RSum(f, n) == IF n = 0 THEN <<0, 1>> ELSE RAdd(f[n], RSum(f, n - 1))

Cos4(q) == <<1, 0, -1, 0>>[(q % 4) + 1]
Sin4(q) == <<0, 1, 0, -1>>[(q % 4) + 1]
M360(x) == x % 360
(* representative of an angle in (-180, 180] *)
Canon(x) == LET m == M360(x) IN IF m <= 180 THEN m ELSE m - 360

-----------------------------------------------------------------------------
(* "ll": octahedral lattice *)
IsPoleLat(lat) == lat = 90 \/ lat = -90

(* unit vector of a lattice point: (cos lat cos lon, cos lat sin lon, sin lat) *)
Unit(lat, lon) ==
  IF lat = 90 THEN <<0, 0, 1>> ELSE IF lat = -90 THEN <<0, 0, -1>>
  ELSE <<Cos4(M360(lon) \div 90), Sin4(M360(lon) \div 90), 0>>

(* position: radius * unit vector, time appended and divided by the time ratio *)
LatLon2Pos(lat, lon, t, r, te, temporal) ==
  LET u == Unit(lat, lon)
      s == [i \in 1..3 |-> RMul(Pow2(r), <<u[i], 1>>)]
  IN IF temporal THEN s \o << RMul(<<t, 1>>, RInv(Pow2(te))) >> ELSE s

(* inverse on the lattice: pos = radius * (vector in {-1,0,1}^3 with one non-zero entry);
   at a pole the longitude is arbitrary, the canonical value 0 is returned *)
Pos2LatLon(pos, r, te, temporal) ==
  LET u  == [i \in 1..3 |-> Exact(RMul(pos[i], RInv(Pow2(r))), 1)]
      ll == IF u[3] = 1 THEN <<90, 0>> ELSE IF u[3] = -1 THEN <<-90, 0>>
            ELSE IF u[1] = 1 THEN <<0, 0>> ELSE IF u[2] = 1 THEN <<0, 90>>
            ELSE IF u[1] = -1 THEN <<0, 180>> ELSE IF u[2] = -1 THEN <<0, -90>>
            ELSE Assert(FALSE, <<"not on the octahedral lattice", pos>>)
  IN IF temporal THEN ll \o << Exact(RMul(pos[4], Pow2(te)), 1) >> ELSE ll

(* two lat-lon(-time) tuples denote the same point *)
SamePoint(a, b) ==
  /\ a[1] = b[1]
  /\ IsPoleLat(a[1]) \/ M360(a[2] - b[2]) = 0
  /\ Len(a) = Len(b) /\ (Len(a) = 3 => a[3] = b[3])

LLConfigs == {[lat |-> la, lon |-> lo, t |-> t, r |-> r, te |-> te, temporal |-> tp] :
                 la \in Lats, lo \in Lons, t \in Times, r \in RadExp, te \in TimeExp, tp \in BOOLEAN}
LLValid(c) == c.temporal \/ (c.t = 0 /\ c.te = 0)     \* no duplicates for the purely spatial case

LLCompute(c) ==
  LET p    == LatLon2Pos(c.lat, c.lon, c.t, c.r, c.te, c.temporal)
      back == Pos2LatLon(p, c.r, c.te, c.temporal)
      ll   == IF c.temporal THEN <<c.lat, c.lon, c.t>> ELSE <<c.lat, c.lon>>
  IN [ pos4  |-> [i \in 1..Len(p) |-> Exact(p[i], 4)],      \* units of 1/4
       back  |-> back,                                       \* canonical lat, lon(, t)
       chk   |-> [ roundtrip  |-> SamePoint(back, ll),
                   roundtrip2 |-> LatLon2Pos(back[1], back[2], IF c.temporal THEN back[3] ELSE 0,
                                             c.r, c.te, c.temporal) = p,
                   onsphere   |-> RSum([i \in 1..3 |-> RMul(p[i], p[i])], 3) = RMul(Pow2(c.r), Pow2(c.r)),
                   \* the time axis: t / ratio, and no spatial coordinate depends on t or on the ratio
                   timeaxis   |-> c.temporal =>
                                    /\ p[4] = RMul(<<c.t, 1>>, RInv(Pow2(c.te)))
                                    /\ \A t2 \in Times : \A te2 \in TimeExp :
                                         SubSeq(LatLon2Pos(c.lat, c.lon, t2, c.r, te2, TRUE), 1, 3)
                                           = LatLon2Pos(c.lat, c.lon, 0, c.r, 0, FALSE) ] ]

-----------------------------------------------------------------------------
(* "gc": great-circle distance in integer degrees, points <<lat, lon>> in integer degrees *)
CircDist(a, b) == LET m == M360(a - b) IN IF m <= 180 THEN m ELSE 360 - m
IsPole(p) == IsPoleLat(p[1])
(* angle of p along the meridian circle through lon0 (lon0 side: the latitude;
   opposite side: 180 - latitude); p must lie on that circle *)
MerAngle(p, lon0) == IF IsPole(p) THEN p[1]
                     ELSE IF M360(p[2] - lon0) = 0 THEN p[1]
                     ELSE IF M360(p[2] - lon0) = 180 THEN 180 - p[1]
                     ELSE Assert(FALSE, <<"not on the meridian circle", p, lon0>>)
SameMeridianCircle(p1, p2) == IsPole(p1) \/ IsPole(p2) \/ (p1[2] - p2[2]) % 180 = 0

NA == -1
GCDeg(p1, p2) ==
  IF p1[1] = 0 /\ p2[1] = 0 THEN CircDist(p1[2], p2[2])                     \* both on the equator
  ELSE IF SameMeridianCircle(p1, p2)
       THEN LET lon0 == IF IsPole(p1) THEN p2[2] ELSE p1[2]
            IN CircDist(MerAngle(p1, lon0), MerAngle(p2, lon0))
  ELSE IF p1[1] = 0 /\ (p1[2] - p2[2]) % 180 = 90 THEN 90     \* p1 is a pole of p2's meridian circle
  ELSE IF p2[1] = 0 /\ (p1[2] - p2[2]) % 180 = 90 THEN 90
  ELSE NA

(* exact squared chord (unit sphere) for the distances where it is rational *)
Chord2(deg) == CASE deg = 0 -> 0 [] deg = 60 -> 1 [] deg = 90 -> 2 [] deg = 120 -> 3 [] deg = 180 -> 4
                 [] OTHER -> NA

IsLattice(p) == p[1] % 90 = 0 /\ p[2] % 90 = 0
Dot(u, v) == ISum([i \in 1..3 |-> u[i] * v[i]], 3)

(* sum of squared value differences over a set of index pairs *)
RECURSIVE SumSq(_, _)
SumSq(T, vs) == IF T = {} THEN 0
                ELSE LET pr == CHOOSE x \in T : TRUE
                     IN (vs[pr[1]] - vs[pr[2]]) * (vs[pr[1]] - vs[pr[2]]) + SumSq(T \ {pr}, vs)

(* B equal bins [ (b-1) M/B, b M/B ) on [0, M], M = Mn/Md degrees: index of distance d (B+1.. = beyond the cut-off) *)
BinIdx(d, Mn, Md, B) == ((d * B * Md) \div Mn) + 1
OnBinEdge(d, Mn, Md, B) == d # 0 /\ (d * B * Md) % Mn = 0

(* Default cut-off of the automatic bins: one third of the "box diameter" of the points, for lat-lon data
   the great-circle length that belongs to the diagonal of the 3-D bounding box (a chord; chords longer
   than the diameter of the sphere count as 180 degrees).  Exact in two cases:
   - lattice points: the extent per axis is an integer, diagonal^2 in {0,1,2,3} is the chord of 0/60/90/120 degrees;
   - an arc within one quadrant of the equator, or a meridian arc within one hemisphere half (one longitude,
     latitudes of one sign): every coordinate is monotone along the arc, the box diagonal is the chord
     between the end points, its great-circle length is the length of the arc in degrees. *)
RECURSIVE MaxOf(_)
MaxOf(S) == LET x == CHOOSE y \in S : TRUE IN IF S = {x} THEN x ELSE LET m == MaxOf(S \ {x}) IN IF x > m THEN x ELSE m
MinOf(S) == -MaxOf({-x : x \in S})
BoxGC(ps) ==
  LET n == Len(ps)
      I == 1..n
  IN IF \A i \in I : IsLattice(ps[i])
     THEN LET U == [i \in I |-> Unit(ps[i][1], ps[i][2])]
              ext(a) == MaxOf({U[i][a] : i \in I}) - MinOf({U[i][a] : i \in I})
              d2 == ext(1) * ext(1) + ext(2) * ext(2) + ext(3) * ext(3)
          IN IF d2 >= 4 THEN 180 ELSE CASE d2 = 0 -> 0 [] d2 = 1 -> 60 [] d2 = 2 -> 90 [] d2 = 3 -> 120
     ELSE IF (\A i \in I : ps[i][1] = 0) /\ (\E q \in 0..3 : \A i \in I : M360(ps[i][2]) \in (90 * q)..(90 * q + 90))
     THEN MaxOf({M360(ps[i][2]) : i \in I}) - MinOf({M360(ps[i][2]) : i \in I})
     ELSE IF (\A i \in I : M360(ps[i][2] - ps[1][2]) = 0)
             /\ ((\A i \in I : ps[i][1] >= 0) \/ (\A i \in I : ps[i][1] <= 0))
     THEN MaxOf({ps[i][1] : i \in I}) - MinOf({ps[i][1] : i \in I})
     ELSE NA

GCCompute(k) ==
  LET ps == PointSets[k]
      vs == Values[k]
      n  == Len(ps)
      dm == TLCEval([i \in 1..n |-> TLCEval([j \in 1..n |-> GCDeg(ps[i], ps[j])])])
      pairs == {<<i, j>> \in (1..n) \X (1..n) : i < j}
      ds == {dm[pr[1]][pr[2]] : pr \in pairs}
  IN [ dist |-> dm,
       \* histogram: <<distance, number of pairs, sum of squared value differences>>
       hist |-> {<<d, Cardinality({pr \in pairs : dm[pr[1]][pr[2]] = d}),
                   SumSq({pr \in pairs : dm[pr[1]][pr[2]] = d}, vs)>> : d \in ds},
       \* the same pairs regrouped into automatic bins: per bin <<count, sum of squares>>
       auto |-> [a \in 1..Len(AutoBins) |->
                   LET Mn == AutoBins[a][1]  Md == AutoBins[a][2]  B == AutoBins[a][3]
                   IN [b \in 1..B |->
                         LET sel == {pr \in pairs : BinIdx(dm[pr[1]][pr[2]], Mn, Md, B) = b}
                         IN <<Cardinality(sel), SumSq(sel, vs)>>]],
       noedge |-> [a \in 1..Len(AutoBins) |-> \A pr \in pairs :
                     ~OnBinEdge(dm[pr[1]][pr[2]], AutoBins[a][1], AutoBins[a][2], AutoBins[a][3])],
       \* great-circle length (degrees) of the bounding-box diagonal, NA where it is not exact; the default
       \* last bin edge is boxgc / 3
       boxgc |-> BoxGC(ps),
       chord2 |-> [i \in 1..n |-> [j \in 1..n |-> Chord2(dm[i][j])]],
       chk  |-> [ defined   |-> \A i, j \in 1..n : dm[i][j] # NA,
                  symmetric |-> \A i, j \in 1..n : dm[i][j] = dm[j][i] /\ dm[i][i] = 0,
                  range     |-> \A i, j \in 1..n : dm[i][j] \in 0..180,
                  \* the box diagonal is at least as long as the largest distance, and equal to it on arcs
                  box       |-> BoxGC(ps) # NA => /\ \A i, j \in 1..n : dm[i][j] <= BoxGC(ps)
                                                   /\ (~(\A m \in 1..n : IsLattice(ps[m]))
                                                          => \E a, b \in 1..n : dm[a][b] = BoxGC(ps)),
                  \* agrees with the exact 3-D geometry where both points are lattice points
                  lattice   |-> \A i, j \in 1..n :
                                  (IsLattice(ps[i]) /\ IsLattice(ps[j])) =>
                                    LET c == Dot(Unit(ps[i][1], ps[i][2]), Unit(ps[j][1], ps[j][2]))
                                    IN dm[i][j] = (IF c = 1 THEN 0 ELSE IF c = 0 THEN 90 ELSE 180)
                                       /\ Chord2(dm[i][j]) = 2 - 2 * c,
                  \* invariant under lon -> lon + 360 k of either point
                  shift     |-> \A i, j \in 1..n : \A s \in {-720, -360, 360} :
                                  GCDeg(<<ps[i][1], ps[i][2] + s>>, ps[j]) = dm[i][j] ] ]

-----------------------------------------------------------------------------
(* "oct": the rotation group of the octahedron on the coordinate great circles *)
Perms3 == {p \in [1..3 -> 1..3] : \A i, j \in 1..3 : i # j => p[i] # p[j]}
SignedPerms == {[perm |-> p, sgn |-> s] : p \in Perms3, s \in [1..3 -> {-1, 1}]}
(* matrix of g: (g v)[i] = sgn[i] * v[perm[i]] *)
MatOf(g) == [i \in 1..3 |-> [j \in 1..3 |-> IF j = g.perm[i] THEN g.sgn[i] ELSE 0]]
Det3(A) == A[1][1] * (A[2][2] * A[3][3] - A[2][3] * A[3][2])
         - A[1][2] * (A[2][1] * A[3][3] - A[2][3] * A[3][1])
         + A[1][3] * (A[2][1] * A[3][2] - A[2][2] * A[3][1])
OctaRot == {g \in SignedPerms : Det3(MatOf(g)) = 1}
ApplyInt(g, v) == [i \in 1..3 |-> g.sgn[i] * v[g.perm[i]]]

(* symbolic coordinates: Z = exactly zero, otherwise th in 0..359 standing for cos(th degrees) *)
Z == -1
OnEquator(p)  == p[1] = 0
OnMer0(p)     == IsPole(p) \/ p[2] % 180 = 0
OnMer90(p)    == IsPole(p) \/ p[2] % 180 = 90
CirclePoint(p) == OnEquator(p) \/ OnMer0(p) \/ OnMer90(p)
SymOf(p) ==
  IF OnEquator(p) THEN <<M360(p[2]), M360(p[2] - 90), Z>>                   \* (cos lon, sin lon, 0)
  ELSE IF OnMer0(p) THEN LET a == MerAngle(p, 0) IN <<M360(a), Z, M360(a - 90)>>     \* (cos a, 0, sin a)
  ELSE IF OnMer90(p) THEN LET a == MerAngle(p, 90) IN <<Z, M360(a), M360(a - 90)>>   \* (0, cos a, sin a)
  ELSE Assert(FALSE, <<"not on a coordinate great circle", p>>)
ActSym(g, s) == [i \in 1..3 |-> LET c == s[g.perm[i]] IN
                   IF c = Z THEN Z ELSE IF g.sgn[i] = 1 THEN c ELSE M360(c + 180)]
(* (cos al, cos be) with be = al - 90 is the point of angle al, with be = al + 90 of angle -al *)
AngleOf(al, be) == IF M360(be - al) = 270 THEN al
                   ELSE IF M360(be - al) = 90 THEN M360(-al)
                   ELSE Assert(FALSE, <<"not a point of a circle", al, be>>)
MerPoint(a, lon0) == LET c == Canon(a) IN
                     IF c >= -90 /\ c <= 90 THEN <<c, lon0>>
                     ELSE IF c > 90 THEN <<180 - c, Canon(lon0 + 180)>>
                     ELSE <<-180 - c, Canon(lon0 + 180)>>
PointOf(s) ==
  IF s[3] = Z THEN <<0, Canon(AngleOf(s[1], s[2]))>>
  ELSE IF s[2] = Z THEN MerPoint(AngleOf(s[1], s[3]), 0)
  ELSE IF s[1] = Z THEN MerPoint(AngleOf(s[2], s[3]), 90)
  ELSE Assert(FALSE, <<"no zero coordinate", s>>)
Act(g, p) == PointOf(ActSym(g, SymOf(p)))

(* numeric value of a symbolic coordinate when it is a multiple of 90 degrees *)
SymVal(c) == IF c = Z THEN 0 ELSE Cos4(c \div 90)

OctConfigs == {[g |-> g, k |-> k] : g \in OctaRot, k \in 1..Len(PointSets)}
OctCompute(c) ==
  LET ps  == PointSets[c.k]
      n   == Len(ps)
      img == [i \in 1..n |-> Act(c.g, ps[i])]
      A   == MatOf(c.g)
  IN [ mat |-> A,
       img |-> img,
       chk |-> [ group    |-> /\ Cardinality(OctaRot) = 24
                              /\ \A i, j \in 1..3 : ISum([m \in 1..3 |-> A[i][m] * A[j][m]], 3)
                                                      = (IF i = j THEN 1 ELSE 0),
                 range    |-> \A i \in 1..n : img[i][1] \in -90..90 /\ img[i][2] \in -179..180
                                              /\ CirclePoint(img[i]),
                 \* on lattice points the symbolic action is the matrix action
                 lattice  |-> \A i \in 1..n : IsLattice(ps[i]) =>
                                /\ [m \in 1..3 |-> SymVal(SymOf(ps[i])[m])] = Unit(ps[i][1], ps[i][2])
                                /\ Unit(img[i][1], img[i][2]) = ApplyInt(c.g, Unit(ps[i][1], ps[i][2])),
                 \* rotations preserve every great-circle distance the spec can express
                 isometry |-> \A i, j \in 1..n : GCDeg(ps[i], ps[j]) # NA =>
                                GCDeg(img[i], img[j]) = GCDeg(ps[i], ps[j]) ] ]

-----------------------------------------------------------------------------
(* "st": sets of space-time lattice points *)
STCompute(k) ==
  LET S  == STSets[k]
      n  == Len(S.pts)
      P  == [i \in 1..n |-> LatLon2Pos(S.pts[i][1], S.pts[i][2], S.pts[i][3], S.r, S.te, TRUE)]
      d2 == [i \in 1..n |-> [j \in 1..n |->
               RSum([m \in 1..4 |-> LET x == RAdd(P[i][m], RMul(<<-1, 1>>, P[j][m])) IN RMul(x, x)], 4)]]
  IN [ pos4 |-> [i \in 1..n |-> [m \in 1..4 |-> Exact(P[i][m], 4)]],
       d2x16 |-> [i \in 1..n |-> [j \in 1..n |-> Exact(d2[i][j], 16)]],
       \* the purely spatial squared chord (units 1/16) and the time part, separately
       chk |-> [ split |-> \A i, j \in 1..n :
                    LET c   == Dot(Unit(S.pts[i][1], S.pts[i][2]), Unit(S.pts[j][1], S.pts[j][2]))
                        sp  == RMul(<<2 - 2 * c, 1>>, RMul(Pow2(S.r), Pow2(S.r)))
                        dt  == RMul(<<S.pts[i][3] - S.pts[j][3], 1>>, RInv(Pow2(S.te)))
                    IN d2[i][j] = RAdd(sp, RMul(dt, dt)) ] ]

-----------------------------------------------------------------------------
Init ==
  /\ cfg \in CASE Mode = "ll"  -> {c \in LLConfigs : LLValid(c)}
               [] Mode = "gc"  -> {[k |-> k] : k \in 1..Len(PointSets)}
               [] Mode = "oct" -> OctConfigs
               [] Mode = "st"  -> {[k |-> k] : k \in 1..Len(STSets)}
  /\ out = CASE Mode = "ll"  -> LLCompute(cfg)
             [] Mode = "gc"  -> GCCompute(cfg.k)
             [] Mode = "oct" -> OctCompute(cfg)
             [] Mode = "st"  -> STCompute(cfg.k)
Next == UNCHANGED vars

(* every clause holds in every configuration *)
AllChecks == \A f \in DOMAIN out.chk : out.chk[f]
=============================================================================
