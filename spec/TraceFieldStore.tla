--------------------------- MODULE TraceFieldStore ---------------------------
(***************************************************************************)
(* Trace validation for the storage machine (code -> spec direction).  A   *)
(* Python driver that knows nothing of TLC's behaviours performs random    *)
(* operations on real SRF / Field objects and logs, after every public     *)
(* call returned or raised, the operation with its arguments and the       *)
(* projection of the real object: the position token in force, the list    *)
(* field_names, and for every stored name the number of the computing call *)
(* whose result is stored there (found by comparing contents).  "Init"     *)
(* starts a new execution (a freshly built object).  Every event is        *)
(* replayed through the same action of FieldStore with the logged          *)
(* arguments.                                                              *)
(***************************************************************************)
EXTENDS FieldStore, Json, IOUtils

Log == JsonDeserialize(IOEnv.TRACE_FILE)

VARIABLE l
tvars == <<pos, names, val, ncall, status, op, l>>

E == Log[l]

Fresh == /\ pos' = 0 /\ names' = <<>> /\ val' = Empty /\ ncall' = 0
         /\ status' = "Ok" /\ op' = [name |-> "Init"]

TraceInit == Init /\ l = 2 /\ Log[1].name = "Init"

Step ==
  CASE E.name = "Init"          -> Fresh
    [] E.name = "Call"          -> Call(E.p, E.st)
    [] E.name = "SetPos"        -> SetPos(E.p)
    [] E.name = "Delete"        -> Delete(E.form, E.sel)
    [] E.name = "DeleteIdx"     -> DeleteIdx(E.i)
    [] E.name = "DeleteIdxList" -> DeleteIdxList(E.i)
    [] E.name = "Read"          -> Read(E.form, E.sel, E.i)
    [] E.name = "Transform"     -> Transform(E.src, E.st)

TraceNext == l <= Len(Log) /\ Step /\ l' = l + 1
TraceSpec == TraceInit /\ [][TraceNext]_tvars

Logged == Log[l - 1]
TraceMatches ==
  \/ Logged.name = "Init"
  \/ /\ (status = "Refused") = Logged.raised
     /\ pos = Logged.pos
     /\ names = Logged.names
     /\ \A n \in GoodNames : val[n] = Logged.val[n]
     /\ (Logged.name = "Read" /\ ~Logged.raised) => op.ans = Logged.ans

NotStuck == l <= Len(Log) => ENABLED Step
TraceAccepted == TLCGet("stats").diameter = Len(Log)
=============================================================================
