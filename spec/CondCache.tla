------------------------------ MODULE CondCache ------------------------------
(***************************************************************************)
(* Conditioned random fields: cache discipline of CondSRF / Krige (C07).   *)
(*                                                                         *)
(* IDEAL layer: the public configuration `cfg` (conditioning positions and *)
(* values, model, mean), the target positions, the seed in force and the   *)
(* flag `dirty` = "the model or the mean/trend/normalizer was changed and  *)
(* the documented refresh  krige.set_condition()  has not been called      *)
(* yet".  Requirement: a Call made while ~dirty returns exactly what a     *)
(* freshly built object with the current configuration, positions and seed *)
(* returns.  (Conservative reading: nothing is required of a call made     *)
(* while dirty.)                                                           *)
(*                                                                         *)
(* A target-position value `p \in Poss` stands for everything Field.set_pos *)
(* takes: the coordinate tuple AND the mesh type (the same tuple read as   *)
(* the axes of a structured grid is a different position).                 *)
(*                                                                         *)
(* CODE-SHAPED layer: what the objects keep between calls — the inverted   *)
(* kriging matrix (`mat`, provenance = configuration at the last           *)
(* set_condition), the fields stored in the Krige object (`kvar`) and in   *)
(* the CondSRF object (`rawk`), each with the provenance tag of the        *)
(* computation that produced it — and the reuse test of CondSRF.__call__.  *)
(* Invariant Coherent: a call made while ~dirty uses kriging results whose *)
(* provenance is the configuration and the positions now in force.         *)
(***************************************************************************)
EXTENDS Integers, FiniteSets, TLC

CONSTANTS CPos, CVal, Models, Means, Poss, Seeds,
          ClearOnSetCondition,  \* TRUE: set_condition deletes the stored fields (code after the fix)
          ReuseToken            \* what CondSRF requires before it reuses its cached kriging results:
                                \* "none": the mere presence of both stored fields (original code)
                                \* "kvar": the stored kriging variance is the array of its last own evaluation
                                \* "both": stored raw kriging field AND variance are the arrays of its last
                                \*         own evaluation (code after the repairs)

VARIABLES cfg, pos, seed, dirty, op,       \* ideal
          mat, kvar, rawk, res,           \* code-shaped: matrix provenance, stored fields, last result tag
          own                             \* code-shaped: [r, k] - the stored raw kriging field / kriging variance
                                          \* is the array produced by the last own kriging evaluation

ivars == <<cfg, pos, seed, dirty>>
vars  == <<cfg, pos, seed, dirty, op, mat, kvar, rawk, res, own>>

Keep == 0
NoTag == [none |-> TRUE]

Cfg == [cpos : CPos, cval : CVal, model : Models, mean : Means]

(* provenance of a kriging computation: which matrix, which right-hand-side model,
   which data / mean (read at call time), which target positions *)
Tag(c, m, p) == [cpos |-> m.cpos, matModel |-> m.model, rhsModel |-> c.model,
                 cval |-> c.cval, mean |-> c.mean, pos |-> p]
FreshTag(c, p) == Tag(c, [cpos |-> c.cpos, model |-> c.model], p)

Init ==
  /\ cfg \in Cfg /\ pos = Keep /\ seed \in Seeds /\ dirty = FALSE
  /\ mat = [cpos |-> cfg.cpos, model |-> cfg.model]
  /\ kvar = NoTag /\ rawk = NoTag /\ res = NoTag /\ own = [r |-> FALSE, k |-> FALSE]
  /\ op = [name |-> "Init"]

(* cond_srf(pos = p or None, seed = s or keep, store = st, krige_store = kst)
   st / kst: TRUE = store under the default names, FALSE = do not store *)
Token(o) == CASE ReuseToken = "none" -> TRUE [] ReuseToken = "kvar" -> o.k [] OTHER -> o.r /\ o.k

Call(p, s, st, kst) ==
  /\ (p = Keep => pos # Keep)
  /\ pos' = IF p = Keep THEN pos ELSE p
  /\ seed' = IF s = Keep THEN seed ELSE s
  /\ UNCHANGED <<cfg, dirty, mat>>
  /\ LET deleted == p # Keep /\ p # pos            \* set_pos deletes every stored field
         k0 == IF deleted THEN NoTag ELSE kvar
         r0 == IF deleted THEN NoTag ELSE rawk
         reuse == ~deleted /\ r0 # NoTag /\ k0 # NoTag /\ Token(own)
         t == Tag(cfg, mat, pos')
     IN /\ res' = IF reuse THEN [rawk |-> r0, kvar |-> k0] ELSE [rawk |-> t, kvar |-> t]
        \* a fresh evaluation stores its results only where storing was asked for; what is not
        \* stored leaves the previously stored array (if any) in place
        /\ rawk' = IF reuse THEN r0 ELSE IF st THEN t ELSE r0
        /\ kvar' = IF reuse THEN k0 ELSE IF kst THEN t ELSE k0
        /\ own'  = IF reuse THEN own ELSE [r |-> st, k |-> kst]
        /\ op' = [name |-> "Call", p |-> p, s |-> s, st |-> st, kst |-> kst, compare |-> ~dirty,
                  cfg |-> cfg, pos |-> pos', seed |-> seed', reuse |-> reuse]

(* cond_srf.set_pos(p) *)
SetPos(p) ==
  /\ pos' = p
  /\ IF p # pos THEN kvar' = NoTag /\ rawk' = NoTag ELSE UNCHANGED <<kvar, rawk>>
  /\ op' = [name |-> "SetPos", p |-> p]
  /\ UNCHANGED <<cfg, seed, dirty, mat, res, own>>

(* krige.set_condition(cond_pos, cond_val) / set_condition(cond_val = ..) / set_condition(cond_pos = ..) /
   krige.set_condition()  (the documented refresh); `form` says which arguments are passed *)
SetCondition(cp, cv, form) ==
  /\ (form = "val" => cp = cfg.cpos) /\ (form = "pos" => cv = cfg.cval)
  /\ (form = "none" => cp = cfg.cpos /\ cv = cfg.cval)
  /\ cfg' = [cfg EXCEPT !.cpos = cp, !.cval = cv]
  /\ mat' = [cpos |-> cp, model |-> cfg.model]
  /\ dirty' = FALSE
  /\ IF ClearOnSetCondition THEN kvar' = NoTag ELSE UNCHANGED kvar
  /\ UNCHANGED <<rawk, pos, seed, res, own>>
  /\ op' = [name |-> "SetCondition", cp |-> cp, cv |-> cv, form |-> form,
            refresh |-> (cp = cfg.cpos /\ cv = cfg.cval)]

(* cond_srf.model.len_scale = ...  (in place)  or  cond_srf.model = <new model> *)
ChangeModel(m, how) ==
  /\ m # cfg.model
  /\ cfg' = [cfg EXCEPT !.model = m]
  /\ dirty' = TRUE
  /\ op' = [name |-> "ChangeModel", m |-> m, how |-> how]
  /\ UNCHANGED <<pos, seed, mat, kvar, rawk, res, own>>

(* cond_srf.mean = ... *)
ChangeMean(v) ==
  /\ v # cfg.mean
  /\ cfg' = [cfg EXCEPT !.mean = v]
  /\ dirty' = TRUE
  /\ op' = [name |-> "ChangeMean", v |-> v]
  /\ UNCHANGED <<pos, seed, mat, kvar, rawk, res, own>>

(* cond_srf.krige(pos = p): the underlying kriging object is used directly.  It shares the
   positions with the CondSRF object; its own set_pos deletes only ITS stored fields, the raw
   kriging field kept by the CondSRF object survives, and the call stores a fresh kriging
   variance that was not produced by the CondSRF object. *)
KrigeCall(p) ==
  /\ pos' = p
  /\ kvar' = Tag(cfg, mat, p)
  /\ own' = [own EXCEPT !.k = FALSE]
  /\ op' = [name |-> "KrigeCall", p |-> p]
  /\ UNCHANGED <<cfg, seed, dirty, mat, res, rawk>>

(* cond_srf.delete_fields() *)
DeleteFields ==
  /\ rawk' = NoTag
  /\ op' = [name |-> "DeleteFields"]
  /\ UNCHANGED <<cfg, pos, seed, dirty, mat, kvar, res, own>>

Next ==
  \/ \E p \in Poss \cup {Keep}, s \in Seeds \cup {Keep}, st \in BOOLEAN, kst \in BOOLEAN : Call(p, s, st, kst)
  \/ \E p \in Poss : SetPos(p)
  \/ \E cp \in CPos, cv \in CVal, form \in {"both", "val", "pos", "none"} : SetCondition(cp, cv, form)
  \/ \E m \in Models, how \in {"inplace", "assign"} : ChangeModel(m, how)
  \/ \E v \in Means : ChangeMean(v)
  \/ DeleteFields
  \/ \E p \in Poss : KrigeCall(p)

Spec == Init /\ [][Next]_vars

-----------------------------------------------------------------------------
Calling == op.name = "Call"

(* the property: no stale kriging result is used by a call made in a refreshed state *)
Coherent == (Calling /\ ~dirty) =>
  /\ res.rawk = FreshTag(cfg, pos)
  /\ res.kvar = FreshTag(cfg, pos)

(* whenever nothing is dirty the stored matrix belongs to the current configuration *)
MatrixCurrent == ~dirty => mat = [cpos |-> cfg.cpos, model |-> cfg.model]

View == <<cfg, pos, seed, dirty, mat, kvar, rawk, res, own, op.name>>
=============================================================================
