----------------------------- MODULE StoreConfig -----------------------------
(***************************************************************************)
(* Field.get_store_config: how the `store` argument of a call that yields  *)
(* several fields is read.  TLC enumerates every spelling (Init) and       *)
(* computes names and save flags; the driver calls the real method with    *)
(* each spelling and compares.                                             *)
(***************************************************************************)
EXTENDS Integers, Sequences, FiniteSets, TLC

CONSTANTS Strs,        \* strings used as names
          DefaultSets, \* sequences of default names
          Counts       \* field counts

VARIABLES inp, out

(* get_store_config(store, default, fld_cnt) for objects with several fields per call (Krige:
   field / krige_var / mean_field, CondSRF: field / raw_field / raw_krige): a pure function with
   a case analysis over the spelling of `store`.  A spelling item is a record
   [k |-> "bool", b |-> ..] or [k |-> "str", s |-> ..]; `store` is one item or a sequence of items.
   Names are records [base, n] standing for base followed by the digit n (n = 0: no digit). *)
Nm(b, n) == [base |-> b, n |-> n]
Truthy(it) == it.k = "str" \/ it.b

DefaultNames(defaults, cnt) ==      \* _names(): cut to cnt, pad with <last><i+1>
  [i \in 1..cnt |-> IF i <= Len(defaults) THEN Nm(defaults[i], 0)
                    ELSE Nm(defaults[Len(defaults)], i - Len(defaults))]

StoreConfig(store, isList, defaults, cnt) ==
  IF cnt = 0                      \* fld_cnt = None: one field, `default` is one name
  THEN [name |-> <<IF ~isList /\ store.k = "str" THEN Nm(store.s, 0) ELSE Nm(defaults[1], 0)>>,
        save |-> <<IF isList THEN Len(store) > 0 ELSE Truthy(store)>>]
  ELSE
  LET dn == DefaultNames(defaults, cnt)
      items == IF isList THEN store
               ELSE IF store.k = "str" THEN <<store>>          \* a single string is a one-element list
               ELSE <<>>
      listy == isList \/ store.k = "str"
  IN IF listy
     THEN [name |-> [i \in 1..cnt |-> IF i <= Len(items) /\ items[i].k = "str" THEN Nm(items[i].s, 0) ELSE dn[i]],
           save |-> [i \in 1..cnt |-> IF i <= Len(items) THEN Truthy(items[i]) ELSE TRUE]]
     ELSE [name |-> dn, save |-> [i \in 1..cnt |-> store.b]]

Items == [k : {"bool"}, b : BOOLEAN] \cup [k : {"str"}, s : Strs]
Lists == {<<>>} \cup {<<a>> : a \in Items} \cup {<<a, b>> : a \in Items, b \in Items}
           \cup {<<a, b, c>> : a \in Items, b \in Items, c \in Items}

Init == /\ inp \in [isList : {FALSE}, store : Items, defaults : DefaultSets, cnt : Counts]
                  \cup [isList : {TRUE}, store : Lists, defaults : DefaultSets, cnt : Counts]
        /\ out = StoreConfig(inp.store, inp.isList, inp.defaults, inp.cnt)
Next == UNCHANGED <<inp, out>>

(* sanity of the function itself: one name and one flag per field; an item given as a string is
   always saved under exactly that string *)
Shape == LET c == IF inp.cnt = 0 THEN 1 ELSE inp.cnt IN Len(out.name) = c /\ Len(out.save) = c
StringsSaved == (inp.isList /\ inp.cnt > 0) => \A i \in 1..inp.cnt :
                  (i <= Len(inp.store) /\ inp.store[i].k = "str") => (out.save[i] /\ out.name[i] = Nm(inp.store[i].s, 0))
=============================================================================
