-------------------------------- MODULE Fit --------------------------------
(***************************************************************************)
(* Property C10: the bookkeeping of CovModel.fit_variogram with the        *)
(* optimiser as an ADVERSARY.                                              *)
(*                                                                         *)
(* Part 1 (Ideal...) is written from the documentation of fit_variogram:   *)
(* which parameters are fitted, which are set from fixed values, how a     *)
(* prescribed sill couples variance and nugget, which calls must fail, and *)
(* what the model / the returned dictionary are for an arbitrary optimum   *)
(* `popt` inside the admissible box.  Where the documentation leaves a     *)
(* case open the ideal outcome is a SET of alternatives.                   *)
(*                                                                         *)
(* Part 2 (Impl...) transcribes covmodel/fit.py (_pre_para, the box of     *)
(* _init_curve_fit_para, the curve closure of _get_curve, _post_fitting):  *)
(* the model object is mutated by every curve evaluation and read back by  *)
(* the post-processing.                                                    *)
(*                                                                         *)
(* Part 3 is the joint machine: a configuration is chosen, both            *)
(* preprocessings run, the adversary evaluates the closure at arbitrary    *)
(* vectors of the box handed to it and finally returns an arbitrary        *)
(* (finite-cost) vector of that box.  `disc` collects every way in which   *)
(* the code-shaped outcome is not one of the ideal outcomes.               *)
(*                                                                         *)
(* Parameter values live in an ordered group given by operator constants,  *)
(* so that the same module is model checked on an integer lattice (units   *)
(* of 1/64) and used by TraceFit on fixed-point images of recorded floats. *)
(* Model records: public [var, len, nug, opt, anis]; code-shaped           *)
(* [raw, len, nug, opt, anis] (raw = var_raw; var = raw * var_factor).     *)
(***************************************************************************)
EXTENDS Integers, Sequences, FiniteSets, TLC

CONSTANTS
  Plus(_, _), Minus(_, _), Le(_, _),  \* ordered group of parameter values
  Same(_, _),                         \* equality of two computed values (exact on the lattice)
  VarOfRaw(_, _, _, _), RawOfVar(_, _, _, _),
     \* TPL classes (cls, value, len_scale, optional argument): var = raw * var_factor(len_scale, opt);
     \* "TPL": opt = len_low, hurst = 1/2, factor = len_scale;  "TPLH": opt = hurst, len_low = 0,
     \* factor = len_scale^(2 hurst) / (2 hurst)  (rescale = 1)
  Cfgs,                               \* set of configurations (see below)
  Cand, CandEv,                       \* adversary: argument name -> candidate values (optimum / evaluations)
  MaxEv,                              \* free evaluations before the optimiser returns (>= 1)
  InfTail                             \* BOOLEAN: one more evaluation, punished with an infinite cost, may follow

VARIABLES cfg, phase, ialts, cp, cm, evs, popt, iends, cend, disc
vars == <<cfg, phase, ialts, cp, cm, evs, popt, iends, cend, disc>>

(* A configuration c:
   cls      "Plain" | "Opt" | "TPL" | "TPLH"     dim 1..4 (the model dimension, time axis included)
   temporal metric spatio-temporal model (dim = spatial_dim + 1); the documented semantics
            does not distinguish it: all dim - 1 ratios are fitted / fixed / kept
   dir      directional variograms were passed        latlon  lat-lon model
   pre      public model before the call [var, len, nug, opt, anis]
   bnd      [var, len, nug, opt, anis |-> [lo, hi, lc, hc]]
   sel      [var, len, nug, opt |-> [k |-> "fit" | "off" | "fix", v]]   = the keyword selection
   sill     [k |-> "none" | "true" | "false" | "val", v]
   anis     [k |-> "fit" | "off" | "fix", v]
   spell    [x, y, w]: how the numbers are handed in (x: "f64" | "i64" | "list" | "f32" bin centers,
            y: "f64" | "list" | "f32" variogram values, w: "-" | "none" | "arr" | "list" weights).
            An input class only: the documented semantics does not depend on it (SpellingIrrelevant),
            and the driver requires the same of the implementation (result identical to the float64
            spelling of the same numbers, r2 equal to its definition on the data handed in)
   unknown  an unknown keyword is part of the selection
   methodok method is one of 'trf', 'dogbox'                                  *)

Params == {"var", "len", "nug", "opt"}

Lt(a, b) == ~Le(b, a)
InB(b, v) == /\ IF b.lc THEN Le(b.lo, v) ELSE Lt(b.lo, v)
             /\ IF b.hc THEN Le(v, b.hi) ELSE Lt(v, b.hi)
AllInB(b, s) == \A i \in DOMAIN s : InB(b, s[i])
SameSeq(s, t) == Len(s) = Len(t) /\ \A i \in DOMAIN s : Same(s[i], t[i])

(* assumption on configurations: the model is in a legal state before the call *)
PreLegal(c) == /\ InB(c.bnd.var, c.pre.var) /\ InB(c.bnd.len, c.pre.len) /\ InB(c.bnd.nug, c.pre.nug)
               /\ (c.cls # "Plain" => InB(c.bnd.opt, c.pre.opt)) /\ AllInB(c.bnd.anis, c.pre.anis)
               /\ Len(c.pre.anis) = c.dim - 1

IsFit(c, p) == c.sel[p].k = "fit"
IsFix(c, p) == c.sel[p].k = "fix"
Free(c)     == [p \in Params |-> IsFit(c, p)]
None        == [p \in Params |-> FALSE]
IsTPL(c)    == c.cls \in {"TPL", "TPLH"}
(* the variance a TPL model with intensity of variation (var_raw) of the variance v at (l0, o0)
   has at (l1, o1) *)
Dragged(c, v, l0, o0, l1, o1) == VarOfRaw(c.cls, RawOfVar(c.cls, v, l0, o0), l1, o1)

-----------------------------------------------------------------------------
(*                      Part 1: the documented semantics                    *)

(* "You could also pass fixed values for each parameter.  Then these values
   will be applied and the involved parameters wont be fitted."  Applying a
   value is an assignment to the model (C14): the variance of a TPL model
   follows an assigned length scale / optional argument (var_factor) unless a
   variance is given as well.                                                 *)
Fixed(c) ==
  LET len1 == IF IsFix(c, "len") THEN c.sel.len.v ELSE c.pre.len
      opt1 == IF IsFix(c, "opt") THEN c.sel.opt.v ELSE c.pre.opt
      var1 == IF IsFix(c, "var") THEN c.sel.var.v
              ELSE IF IsTPL(c) /\ (IsFix(c, "len") \/ IsFix(c, "opt"))
                   THEN Dragged(c, c.pre.var, c.pre.len, c.pre.opt, len1, opt1)
                   ELSE c.pre.var
  IN [var  |-> var1, len |-> len1,
      nug  |-> IF IsFix(c, "nug") THEN c.sel.nug.v ELSE c.pre.nug,
      opt  |-> opt1,
      anis |-> IF c.anis.k = "fix" THEN c.anis.v ELSE c.pre.anis]

FixedOK(c) ==
  /\ \A p \in Params : IsFix(c, p) => InB(c.bnd[p], c.sel[p].v)
  /\ (c.anis.k = "fix" => AllInB(c.bnd.anis, c.anis.v))
  /\ (IsTPL(c) /\ (IsFix(c, "len") \/ IsFix(c, "opt")) => InB(c.bnd.var, Fixed(c).var))

IErr(c, why) == [st |-> "error", why |-> why, para |-> None, fanis |-> FALSE,
                 cs |-> FALSE, sill |-> c.pre.var, m |-> c.pre]
IReady(c, para, cs, s, m) ==
  [st |-> "ready", why |-> "", para |-> para, fanis |-> (c.dir /\ c.anis.k = "fit"),
   cs |-> cs, sill |-> s, m |-> m]

(* "If sill=False, it will be deselected from estimation and set to the current
   sill of the model": current = before or after the fixed values were applied
   is not said; both readings are admitted.                                  *)
SillArgs(c, m1) ==
  CASE c.sill.k = "val"   -> {c.sill.v}
    [] c.sill.k = "false" -> {Plus(m1.var, m1.nug), Plus(c.pre.var, c.pre.nug)}
    [] OTHER              -> {}

(* "It needs to be in a fitting range for the var and nugget bounds." *)
SillInRange(c, s) == /\ Le(Plus(c.bnd.var.lo, c.bnd.nug.lo), s)
                     /\ Le(s, Plus(c.bnd.var.hi, c.bnd.nug.hi))

(* "If variance or nugget are not selected for estimation, the nugget will be
   recalculated to fulfill sill = var + nugget; if the variance is bigger than
   the sill, nugget will be set to its lower bound and the variance will be set
   to the fitting partial sill.  If variance is deselected, it needs to be less
   than the sill, otherwise a ValueError comes up.  Same for nugget."
   Values that result from the sill are assigned to the model, hence checked
   against the bounds.  When both are deselected and var > sill the text allows
   the reset as well as the ValueError.                                       *)
WithSill(c, m1, s) ==
  LET f == Free(c)
      b == c.bnd
  IN
  IF ~SillInRange(c, s) THEN {IErr(c, "sill out of bounds")}
  ELSE IF f.var /\ f.nug THEN      \* nugget = sill - var inside the fit
    {IReady(c, [f EXCEPT !.nug = FALSE], TRUE, s, m1)}
  ELSE IF ~f.var /\ f.nug THEN
    IF Lt(s, m1.var) THEN {IErr(c, "deselected variance bigger than sill")}
    ELSE IF ~InB(b.nug, Minus(s, m1.var)) THEN {IErr(c, "resulting nugget out of bounds")}
    ELSE {IReady(c, [f EXCEPT !.nug = FALSE], TRUE, s, [m1 EXCEPT !.nug = Minus(s, m1.var)])}
  ELSE IF f.var /\ ~f.nug THEN
    IF Lt(s, m1.nug) THEN {IErr(c, "deselected nugget bigger than sill")}
    ELSE IF ~InB(b.var, Minus(s, m1.nug)) THEN {IErr(c, "resulting variance out of bounds")}
    ELSE {IReady(c, [f EXCEPT !.var = FALSE], TRUE, s, [m1 EXCEPT !.var = Minus(s, m1.nug)])}
  ELSE
    IF Lt(s, m1.var)
    THEN {IErr(c, "deselected variance bigger than sill")} \cup
         (IF InB(b.nug, b.nug.lo) /\ InB(b.var, Minus(s, b.nug.lo))
          THEN {IReady(c, f, TRUE, s, [m1 EXCEPT !.nug = b.nug.lo, !.var = Minus(s, b.nug.lo)])}
          ELSE {})
    ELSE IF ~InB(b.nug, Minus(s, m1.var)) THEN {IErr(c, "resulting nugget out of bounds")}
    ELSE {IReady(c, f, TRUE, s, [m1 EXCEPT !.nug = Minus(s, m1.var)])}

(* checks that do not depend on the selection; a call that leaves nothing to
   fit is not described by the documentation ("nofit": any outcome)          *)
ILate(c, pp) ==
  IF pp.st # "ready" THEN pp
  ELSE IF ~c.methodok THEN IErr(c, "unknown method")
  ELSE IF c.dir /\ c.latlon THEN IErr(c, "lat-lon models do not support anisotropy")
  ELSE IF (\A p \in Params : ~pp.para[p]) /\ ~pp.fanis THEN [pp EXCEPT !.st = "nofit"]
  ELSE pp

(* a fixed length scale / optional argument drags the variance of a TPL model along
   before the other fixed values are applied; whether such an intermediate value has
   to respect the variance bounds depends on the (unspecified) order of the assignments *)
TPLPassesBounds(c) ==
  /\ IsTPL(c)
  /\ LET l1 == Fixed(c).len
         o1 == Fixed(c).opt
     IN \/ ~InB(c.bnd.var, Dragged(c, c.pre.var, c.pre.len, c.pre.opt, l1, c.pre.opt))
        \/ ~InB(c.bnd.var, Dragged(c, c.pre.var, c.pre.len, c.pre.opt, c.pre.len, o1))
        \/ ~InB(c.bnd.var, Dragged(c, c.pre.var, c.pre.len, c.pre.opt, l1, o1))

IdealPre(c) ==
  IF c.unknown THEN {IErr(c, "unknown parameter in selection")}
  ELSE IF ~FixedOK(c) THEN {IErr(c, "fixed value out of bounds")}
  ELSE LET m1 == Fixed(c) IN
       (IF TPLPassesBounds(c) THEN {IErr(c, "variance out of bounds while the fixed values are applied")} ELSE {})
       \cup
       (IF c.sill.k \in {"none", "true"}
        THEN {ILate(c, IReady(c, Free(c), FALSE, m1.var, m1))}
        ELSE {ILate(c, pp) : pp \in UNION {WithSill(c, m1, s) : s \in SillArgs(c, m1)}})

(* the admissible optima: fitted values inside their bounds; under a prescribed
   sill the variance may not exceed it and the nugget it leaves must be legal  *)
InIdealBox(c, pp, x) ==
  /\ \A p \in Params : pp.para[p] => InB(c.bnd[p], x[p])
  /\ (pp.fanis => AllInB(c.bnd.anis, x.anis))
  /\ ((pp.cs /\ pp.para.var) => (Le(x.var, pp.sill) /\ InB(c.bnd.nug, Minus(pp.sill, x.var))))

(* the model (= the returned dictionary) for the optimum x *)
IdealPost(c, pp, x) ==
  [var  |-> IF pp.para.var THEN x.var ELSE pp.m.var,
   len  |-> IF pp.para.len THEN x.len ELSE pp.m.len,
   nug  |-> IF pp.para.nug THEN x.nug
            ELSE IF pp.cs /\ pp.para.var THEN Minus(pp.sill, x.var) ELSE pp.m.nug,
   opt  |-> IF pp.para.opt THEN x.opt ELSE pp.m.opt,
   anis |-> IF pp.fanis THEN x.anis ELSE pp.m.anis]

(* the clauses of the property, as predicates of an end state e *)
Untouched(c, pp, e) ==
  /\ (~IsFit(c, "len") => e.len = Fixed(c).len)
  /\ (~IsFit(c, "opt") => e.opt = Fixed(c).opt)
  /\ (~pp.fanis => e.anis = Fixed(c).anis)
  /\ ((~IsFit(c, "var") /\ ~pp.cs) => e.var = Fixed(c).var)
  /\ ((~IsFit(c, "nug") /\ ~pp.cs) => e.nug = Fixed(c).nug)
  /\ ((~IsFit(c, "var") /\ IsFit(c, "nug")) => e.var = Fixed(c).var)   \* also under a sill
  /\ ((~IsFit(c, "nug") /\ IsFit(c, "var")) => e.nug = Fixed(c).nug)
EndInBounds(c, e) ==
  /\ InB(c.bnd.var, e.var) /\ InB(c.bnd.len, e.len) /\ InB(c.bnd.nug, e.nug)
  /\ (c.cls # "Plain" => InB(c.bnd.opt, e.opt)) /\ AllInB(c.bnd.anis, e.anis)
SillMet(pp, e) == pp.cs => Same(Plus(e.var, e.nug), pp.sill)
EndOK(c, pp, e) == Untouched(c, pp, e) /\ EndInBounds(c, e) /\ SillMet(pp, e)

-----------------------------------------------------------------------------
(*                  Part 2: transcription of covmodel/fit.py               *)

RawI(c, v, l, o) == IF IsTPL(c) THEN RawOfVar(c.cls, v, l, o) ELSE v
VarI(c, r, l, o) == IF IsTPL(c) THEN VarOfRaw(c.cls, r, l, o) ELSE r
VarM(c, m) == VarI(c, m.raw, m.len, m.opt)
RawM(c, m) == [raw |-> RawI(c, m.var, m.len, m.opt), len |-> m.len, nug |-> m.nug, opt |-> m.opt, anis |-> m.anis]
Pub(c, m)  == [var |-> VarM(c, m), len |-> m.len, nug |-> m.nug, opt |-> m.opt, anis |-> m.anis]

(* _init_curve_fit_para: the box handed to curve_fit
   (top of var = min(sill, upper variance bound) under a prescribed sill) *)
BoxOf(c, cs, s) ==
  [p \in Params \cup {"anis"} |->
     [lo |-> c.bnd[p].lo,
      hi |-> IF p = "var" /\ cs /\ Le(s, c.bnd[p].hi) THEN s ELSE c.bnd[p].hi]]

CErr(c, why) == [st |-> "error", why |-> why, para |-> None, fanis |-> FALSE, cs |-> FALSE,
                 sill |-> c.pre.var, m |-> RawM(c, c.pre), vsave |-> c.pre.var,
                 box |-> BoxOf(c, FALSE, c.pre.var)]

(* the loop over para_select: setattr for non-bool values in keyword order (the driver passes
   len_scale before the optional argument), variance last *)
ImplFixed(c) ==
  LET len1 == IF IsFix(c, "len") THEN c.sel.len.v ELSE c.pre.len
      opt1 == IF IsFix(c, "opt") THEN c.sel.opt.v ELSE c.pre.opt
      raw0 == RawI(c, c.pre.var, c.pre.len, c.pre.opt)
  IN [raw  |-> IF IsFix(c, "var") THEN RawI(c, c.sel.var.v, len1, opt1) ELSE raw0,
      len  |-> len1,
      nug  |-> IF IsFix(c, "nug") THEN c.sel.nug.v ELSE c.pre.nug,
      opt  |-> opt1,
      anis |-> c.pre.anis]
ImplFixedOK(c) ==     \* every setter checks all bounds (also the variance a TPL model drags along)
  /\ \A p \in Params : IsFix(c, p) => InB(c.bnd[p], c.sel[p].v)
  /\ InB(c.bnd.var, VarM(c, ImplFixed(c)))
  /\ (IsTPL(c) =>
        LET raw0 == RawI(c, c.pre.var, c.pre.len, c.pre.opt)
            len1 == ImplFixed(c).len
        IN /\ (IsFix(c, "len") => InB(c.bnd.var, VarI(c, raw0, len1, c.pre.opt)))
           /\ (IsFix(c, "opt") => InB(c.bnd.var, VarI(c, raw0, len1, ImplFixed(c).opt))))

(* tail of _pre_para (anis), method check, _check_vario, `anis &= is_dir_vario` *)
CFinish(c, para, cs, s, m) ==
  IF c.anis.k = "fix" /\ ~AllInB(c.bnd.anis, c.anis.v) THEN CErr(c, "anis setter")
  ELSE IF ~c.methodok THEN CErr(c, "method")
  ELSE IF c.dir /\ c.latlon THEN CErr(c, "latlon directional")
  ELSE LET m2  == IF c.anis.k = "fix" THEN [m EXCEPT !.anis = c.anis.v] ELSE m
           fan == c.anis.k = "fit" /\ c.dir
       IN [st |-> IF (\A p \in Params : ~para[p]) /\ ~fan THEN "nofit" ELSE "ready",
           why |-> "", para |-> para, fanis |-> fan, cs |-> cs, sill |-> s, m |-> m2,
           vsave |-> VarM(c, m2),                      \* var_save = model.var in _get_curve
           box |-> BoxOf(c, cs, s)]

ImplPre(c) ==
  IF c.unknown THEN CErr(c, "unknown parameter")
  ELSE IF ~ImplFixedOK(c) THEN CErr(c, "setter")
  ELSE
  LET f  == Free(c)                 \* not in para_select after filtering
      b  == c.bnd
      m1 == ImplFixed(c)
      v1 == VarM(c, m1)
  IN
  IF c.sill.k \in {"none", "true"} THEN CFinish(c, f, FALSE, v1, m1)
  ELSE
  LET s == IF c.sill.k = "false" THEN Plus(v1, m1.nug) ELSE c.sill.v IN
  IF ~SillInRange(c, s) THEN CErr(c, "sill out of bounds")
  ELSE IF ~f.var /\ ~f.nug THEN
    IF Lt(s, v1)
    THEN LET n == b.nug.lo
             v == Minus(s, n)
         IN IF InB(b.nug, n) /\ InB(b.var, v)
            THEN CFinish(c, f, TRUE, s, [m1 EXCEPT !.nug = n, !.raw = RawI(c, v, m1.len, m1.opt)])
            ELSE CErr(c, "setter")
    ELSE IF InB(b.nug, Minus(s, v1))
         THEN CFinish(c, f, TRUE, s, [m1 EXCEPT !.nug = Minus(s, v1)])
         ELSE CErr(c, "setter")
  ELSE IF ~f.var THEN
    IF Lt(s, v1) THEN CErr(c, "variance bigger than sill")
    ELSE IF InB(b.nug, Minus(s, v1))
         THEN CFinish(c, [f EXCEPT !.nug = FALSE], TRUE, s, [m1 EXCEPT !.nug = Minus(s, v1)])
         ELSE CErr(c, "setter")
  ELSE IF ~f.nug THEN
    IF Lt(s, m1.nug) THEN CErr(c, "nugget bigger than sill")
    ELSE IF InB(b.var, Minus(s, m1.nug))
         THEN CFinish(c, [f EXCEPT !.var = FALSE], TRUE, s,
                      [m1 EXCEPT !.raw = RawI(c, Minus(s, m1.nug), m1.len, m1.opt)])
         ELSE CErr(c, "setter")
  ELSE CFinish(c, [f EXCEPT !.nug = FALSE], TRUE, s, m1)

(* the curve closure: `return np.full_like(x, np.inf)` before anything is written *)
Infeasible(c, pp, x) == pp.para.var /\ pp.cs /\ ~InB(c.bnd.nug, Minus(pp.sill, x.var))
(* a setter inside the closure / the post-processing rejects the value *)
SetterRaises(c, pp, x) ==
  \/ \E p \in Params : pp.para[p] /\ ~InB(c.bnd[p], x[p])
  \/ (pp.fanis /\ ~AllInB(c.bnd.anis, x.anis))
(* `model.len_scale = ...` / `setattr(model, <optional argument>, ...)` on a TPL model:
   var_raw stays, the variance follows and
   is checked before `model.var = ...` restores it *)
DragRaises(c, pp, m, x) ==
  /\ IsTPL(c)
  /\ LET len1 == IF pp.para.len THEN x.len ELSE m.len IN
     \/ (pp.para.len /\ ~InB(c.bnd.var, VarI(c, m.raw, len1, m.opt)))
     \/ (pp.para.opt /\ ~InB(c.bnd.var, VarI(c, m.raw, len1, x.opt)))

ImplEval(c, pp, m, x) ==
  IF Infeasible(c, pp, x) THEN m
  ELSE LET nug1 == IF pp.para.var /\ pp.cs THEN Minus(pp.sill, x.var) ELSE m.nug
           len1 == IF pp.para.len THEN x.len ELSE m.len
           opt1 == IF pp.para.opt THEN x.opt ELSE m.opt
           v    == IF pp.para.var THEN x.var ELSE pp.vsave    \* "needs to be reset for TPL models"
       IN [raw  |-> RawI(c, v, len1, opt1), len |-> len1,
           nug  |-> IF pp.para.nug THEN x.nug ELSE nug1,
           opt  |-> opt1,
           anis |-> IF pp.fanis THEN x.anis ELSE m.anis]

(* _post_fitting: var_tmp starts as the current variance of the model and is
   replaced by the optimum when the variance is fitted; under a prescribed sill
   the nugget is then assigned sill - var_tmp.  Fitted entries are written, the
   other entries of the dictionary are read from the model (nugget after the
   assignment above), and the variance is assigned last in every case.        *)
ImplPost(c, pp, m, x) ==
  LET vtmp == IF pp.para.var THEN x.var ELSE VarM(c, m)
      len1 == IF pp.para.len THEN x.len ELSE m.len
      nug1 == IF pp.para.nug THEN x.nug
              ELSE IF pp.para.var /\ pp.cs THEN Minus(pp.sill, x.var) ELSE m.nug
      opt1 == IF pp.para.opt THEN x.opt ELSE m.opt
      ani1 == IF pp.fanis THEN x.anis ELSE m.anis
  IN [st  |-> "ok",
      m   |-> [raw |-> RawI(c, vtmp, len1, opt1), len |-> len1, nug |-> nug1, opt |-> opt1, anis |-> ani1],
      ret |-> [var |-> vtmp, len |-> len1, nug |-> nug1, opt |-> opt1, anis |-> ani1]]

CEndErr(c) == [st |-> "error", m |-> RawM(c, c.pre), ret |-> c.pre]

-----------------------------------------------------------------------------
(*                        Part 3: the joint machine                         *)

SamePub(a, b) == /\ Same(a.var, b.var) /\ Same(a.len, b.len) /\ Same(a.nug, b.nug)
                 /\ Same(a.opt, b.opt) /\ SameSeq(a.anis, b.anis)

(* ideal end records: "ok" with the model, "error", "any" (undocumented case) *)
IEnd(c, pp, x) ==
  CASE pp.st = "error" -> [st |-> "error", m |-> c.pre]
    [] pp.st = "nofit" -> [st |-> "any", m |-> c.pre]
    [] OTHER           -> [st |-> "ok", m |-> IdealPost(c, pp, x)]
IEnds(c, alts, x) ==
  {IEnd(c, pp, x) : pp \in {q \in alts : q.st # "ready" \/ InIdealBox(c, q, x)}}

Accepts(c, e, ce) ==
  \/ e.st = "any"
  \/ (e.st = "error" /\ ce.st = "error")
  \/ (e.st = "ok" /\ ce.st = "ok" /\ SamePub(e.m, Pub(c, ce.m)) /\ SamePub(e.m, ce.ret))

Tags(c, e, ce) ==
  LET pm == Pub(c, ce.m)
      D(t, same) == IF same THEN {} ELSE {t}
  IN D("model:var", Same(e.m.var, pm.var)) \cup D("dict:var", Same(e.m.var, ce.ret.var))
     \cup D("model:len", Same(e.m.len, pm.len)) \cup D("dict:len", Same(e.m.len, ce.ret.len))
     \cup D("model:nug", Same(e.m.nug, pm.nug)) \cup D("dict:nug", Same(e.m.nug, ce.ret.nug))
     \cup D("model:opt", Same(e.m.opt, pm.opt)) \cup D("dict:opt", Same(e.m.opt, ce.ret.opt))
     \cup D("model:anis", SameSeq(e.m.anis, pm.anis)) \cup D("dict:anis", SameSeq(e.m.anis, ce.ret.anis))

Disc(c, ies, ce) ==
  IF \E e \in ies : Accepts(c, e, ce) THEN {}
  ELSE IF ies = {} THEN (IF ce.st = "error" THEN {"error:in-box"} ELSE {"accepted:out-of-bounds"})
  ELSE IF ce.st = "error" THEN {"error:spurious"}
  ELSE IF \A e \in ies : e.st = "error" THEN {"error:missing"}
  ELSE Tags(c, CHOOSE e \in ies : e.st = "ok", ce)

(* the vectors the adversary may use: candidate values inside the (closed) box
   that was handed to the optimiser; entries of parameters that are not fitted
   are placeholders                                                          *)
InBox(bx, v) == Le(bx.lo, v) /\ Le(v, bx.hi)
Pick(cand, pp, p, dflt) == IF pp.para[p] THEN {v \in cand[p] : InBox(pp.box[p], v)} ELSE {dflt}
Vecs(c, pp, cand) ==
  LET pm == Pub(c, pp.m) IN
  {[var |-> a, len |-> l, nug |-> n, opt |-> o, anis |-> s] :
     a \in Pick(cand, pp, "var", pm.var), l \in Pick(cand, pp, "len", pm.len),
     n \in Pick(cand, pp, "nug", pm.nug), o \in Pick(cand, pp, "opt", pm.opt),
     s \in IF pp.fanis THEN [1..(c.dim - 1) -> {v \in cand.anis : InBox(pp.box.anis, v)}]
           ELSE {pm.anis}}

Init ==
  /\ cfg \in Cfgs
  /\ phase = "start" /\ ialts = {} /\ cp = CErr(cfg, "-") /\ cm = RawM(cfg, cfg.pre)
  /\ evs = <<>> /\ popt = cfg.pre /\ iends = {} /\ cend = CEndErr(cfg) /\ disc = {}

PrePara ==
  /\ phase = "start"
  /\ ialts' = IdealPre(cfg) /\ cp' = ImplPre(cfg) /\ cm' = cp'.m
  /\ UNCHANGED <<cfg, evs, popt>>
  /\ IF cp'.st = "ready"
     THEN /\ phase' = "ready" /\ UNCHANGED <<iends, cend>>
          /\ disc' = IF \A q \in ialts' : q.st = "error" THEN {"error:missing"} ELSE {}
     ELSE /\ phase' = "done"
          /\ cend' = [CEndErr(cfg) EXCEPT !.st = cp'.st]
          /\ iends' = {[st |-> (CASE q.st = "error" -> "error" [] q.st = "nofit" -> "any"
                                  [] OTHER -> "success"), m |-> q.m] : q \in ialts'}
          /\ disc' = IF cp'.st = "nofit" \/ (\E q \in ialts' : q.st \in {"error", "nofit"})
                     THEN {} ELSE {"error:spurious"}

Eval(x) ==
  /\ phase = "ready"
  /\ \/ Len(evs) < MaxEv
     \/ (InfTail /\ Len(evs) = MaxEv /\ Infeasible(cfg, cp, x))
  /\ (Len(evs) = 0 => ~Infeasible(cfg, cp, x))     \* the start must have finite cost
  /\ evs' = Append(evs, x)
  /\ UNCHANGED <<cfg, ialts, cp>>
  /\ IF ~Infeasible(cfg, cp, x) /\ (SetterRaises(cfg, cp, x) \/ DragRaises(cfg, cp, cm, x))
     THEN \* an exception leaves the closure, hence curve_fit and fit_variogram
          /\ phase' = "done" /\ cend' = CEndErr(cfg) /\ cm' = cm /\ popt' = x
          /\ iends' = {[st |-> IF q.st = "error" THEN "error" ELSE "success", m |-> q.m] :
                         q \in {r \in ialts : r.st = "error" \/ (r.st = "ready" /\ InIdealBox(cfg, r, x))}}
          /\ disc' = disc \cup Disc(cfg, iends', cend')
     ELSE /\ cm' = ImplEval(cfg, cp, cm, x)
          /\ UNCHANGED <<phase, popt, iends, cend, disc>>

Finish(x) ==
  /\ phase = "ready" /\ Len(evs) >= 1 /\ ~Infeasible(cfg, cp, x)
  /\ popt' = x /\ phase' = "done"
  /\ cend' = IF SetterRaises(cfg, cp, x) \/ DragRaises(cfg, cp, cm, x)
              THEN CEndErr(cfg) ELSE ImplPost(cfg, cp, cm, x)
  /\ iends' = IEnds(cfg, ialts, x)
  /\ disc' = disc \cup Disc(cfg, iends', cend')
  /\ UNCHANGED <<cfg, ialts, cp, cm, evs>>

Next == \/ PrePara
        \/ (phase = "ready" /\ \E x \in Vecs(cfg, cp, CandEv) : Eval(x))
        \/ (phase = "ready" /\ \E x \in Vecs(cfg, cp, Cand) : Finish(x))

Spec == Init /\ [][Next]_vars

-----------------------------------------------------------------------------
(* invariants of the documented semantics (must hold) *)

(* every ideal optimum (over the candidate lattice) satisfies the clauses of C10 *)
IdealVecs(c, pp) ==
  {x \in {[var |-> a, len |-> l, nug |-> n, opt |-> o, anis |-> s] :
            a \in IF pp.para.var THEN Cand.var ELSE {pp.m.var},
            l \in IF pp.para.len THEN Cand.len ELSE {pp.m.len},
            n \in IF pp.para.nug THEN Cand.nug ELSE {pp.m.nug},
            o \in IF pp.para.opt THEN Cand.opt ELSE {pp.m.opt},
            s \in IF pp.fanis THEN [1..(c.dim - 1) -> Cand.anis] ELSE {pp.m.anis}} :
     InIdealBox(c, pp, x)}
IdealSound ==
  phase # "start" =>
    \A pp \in {q \in ialts : q.st = "ready"} :
      \A x \in IdealVecs(cfg, pp) : EndOK(cfg, pp, IdealPost(cfg, pp, x))

(* dtype / container of the arguments are no part of the documented semantics *)
BaseSpell == [x |-> "f64", y |-> "f64", w |-> "-"]
SpellingIrrelevant ==
  phase # "start" => /\ ialts = IdealPre([cfg EXCEPT !.spell = BaseSpell])
                     /\ cp = ImplPre([cfg EXCEPT !.spell = BaseSpell])

(* a ready ideal outcome has legal values for everything that is not fitted *)
IdealPreLegal ==
  \A pp \in ialts : pp.st = "ready" =>
    /\ InB(cfg.bnd.len, pp.m.len) /\ AllInB(cfg.bnd.anis, pp.m.anis)
    /\ (~pp.para.var => InB(cfg.bnd.var, pp.m.var))
    /\ ((~pp.para.nug /\ ~(pp.cs /\ pp.para.var)) => InB(cfg.bnd.nug, pp.m.nug))
    /\ ((pp.cs /\ ~pp.para.var) => Same(Plus(pp.m.var, pp.m.nug), pp.sill))

(* the code-shaped model after any admissible sequence of evaluations is the one
   after the last evaluation that was not punished (justifies MaxEv = 1)      *)
LastFinite(s) == LET F == {i \in DOMAIN s : ~Infeasible(cfg, cp, s[i])}
                 IN s[CHOOSE i \in F : \A j \in F : j <= i]
LastEvalDecides ==
  (phase = "ready" /\ Len(evs) >= 1) => cm = ImplEval(cfg, cp, cp.m, LastFinite(evs))

(* The transcription agrees with the documentation, except for the one recorded
   deviation (known finding error:spurious:TPL:var-bounds): on a TPL model the
   assignment of a fitted len_scale (or of an optional argument that enters
   var_factor) inside the closure / the post-processing drags
   the variance along and the bounds are checked before the variance is restored,
   so a call the documentation admits ends in a ValueError.  Every other
   discrepancy violates this invariant.                                        *)
KnownDeviation ==
  /\ IsTPL(cfg) /\ phase = "done" /\ cp.st = "ready" /\ cend.st = "error"
  /\ disc = {"error:spurious"}
  /\ DragRaises(cfg, cp, cm, popt) /\ ~SetterRaises(cfg, cp, popt)
ImplConforms == disc = {} \/ KnownDeviation
=============================================================================
