------------------------------ MODULE Pipeline ------------------------------
(***************************************************************************)
(* The mean / normalizer / trend pipeline of GSTools field objects         *)
(* (properties C18 and C19) as a machine over SYMBOLIC values.             *)
(*                                                                         *)
(* A value is a term  <<base, op1, op2, ...>> : an opaque base array       *)
(* followed by the point-wise steps applied to it, oldest first.  The      *)
(* steps are uninterpreted and do not commute; only a step that directly   *)
(* follows its own inverse cancels.  Hence two terms are equal exactly     *)
(* when the same steps were applied in the same order, and TLC decides by  *)
(* term rewriting whether pre-processing inverts post-processing.          *)
(*                                                                         *)
(* Documented pipeline (normalizer/tools.py, Field.post_field, the         *)
(* property statement):                                                    *)
(*   output = trend + denormalize(mean + raw field)                        *)
(*   PostProcess = <<AddMean, Denormalize, AddTrend>>                      *)
(*   PreProcess  = <<SubTrend, Normalize, SubMean>>                        *)
(* A component that is not configured contributes no step.                 *)
(*                                                                         *)
(* Objects: Field (values handed in by the caller), SRF, Krige             *)
(* (simple / ordinary / universal), CondSRF, and the function              *)
(* vario_estimate.  Objects with conditioning data have two views of every *)
(* field: "off" (arbitrary target points, base = the raw kriging result)   *)
(* and "at" (the conditioning points, where exact interpolation makes the  *)
(* raw kriging field equal to the PRE-PROCESSED conditioning values, base  *)
(* "cond").  For the other objects both views coincide.                    *)
(*                                                                         *)
(* The state is the object's configuration, its named stored fields and    *)
(* the history of public calls with the documented result of each.         *)
(***************************************************************************)
EXTENDS Integers, Sequences, FiniteSets, TLC

CONSTANTS
  Kind,        \* "Field" | "SRF" | "Krige" | "CondSRF" | "Vario"
  MeanKinds,   \* subset of {"none", "const", "call"}
  NormKinds,   \* subset of BOOLEAN: is a normalizer configured
  TrendKinds,  \* subset of {"none", "const", "call"}
  VTypes,      \* subset of {"scalar", "vector"}
  Meshes,      \* subset of {"unstructured", "structured"}
  KTypes,      \* kriging flavours {"simple", "ordinary", "universal"} ("-" for other kinds)
  NSpells,     \* how the normalizer argument is spelled: "instance" | "class" (a normalizer is
               \* configured), "none" (None) | "baseclass" (the identity class Normalizer)
  MaxCalls,    \* number of generating calls in a history
  MaxTrans,    \* number of transformations in a history
  Methods1,    \* method variants available to the first transformation
  Methods2     \* method variants available to later transformations

VARIABLES cfg, store, hist, chk
vars == <<cfg, store, hist, chk>>

Names == {"field", "alt", "alt2", "krige_var", "mean_field", "raw_field", "raw_krige"}
StoreArgs == {"T", "F", "alt"}          \* store=True | False | "alt"

-----------------------------------------------------------------------------
(* terms *)
Inv(tok) == CASE tok = "addmean"  -> "submean"  [] tok = "submean"  -> "addmean"
              [] tok = "denorm"   -> "norm"     [] tok = "norm"     -> "denorm"
              [] tok = "addtrend" -> "subtrend" [] tok = "subtrend" -> "addtrend"
              [] OTHER -> "-"                   \* transformations have no inverse step

Push(t, tok) == IF Len(t) > 1 /\ t[Len(t)] = Inv(tok) THEN SubSeq(t, 1, Len(t) - 1)
                ELSE Append(t, tok)
RECURSIVE PushAll(_, _)
PushAll(t, toks) == IF toks = <<>> THEN t ELSE PushAll(Push(t, Head(toks)), Tail(toks))

(* entries: objects with conditioning data carry the two views, the others a single term *)
HasCond == Kind \in {"Krige", "CondSRF"}
E(off, at) == IF HasCond THEN [off |-> off, at |-> at] ELSE off
Both(t) == E(t, t)
Absent == Both(<<>>)
Off(e) == IF HasCond THEN e.off ELSE e
At(e)  == IF HasCond THEN e.at ELSE e
ApplyE(e, toks) == E(PushAll(Off(e), toks), PushAll(At(e), toks))

Opt(cond, tok) == IF cond THEN <<tok>> ELSE <<>>
(* keepMean: the mean is left in / not re-applied (transformations with keep_mean=True) *)
PostOps(cf, keepMean) == Opt(cf.mean # "none" /\ ~keepMean, "addmean") \o Opt(cf.norm, "denorm")
                         \o Opt(cf.trend # "none", "addtrend")
PreOps(cf, keepMean)  == Opt(cf.trend # "none", "subtrend") \o Opt(cf.norm, "norm")
                         \o Opt(cf.mean # "none" /\ ~keepMean, "submean")
PostIf(cf, pp) == IF pp THEN PostOps(cf, FALSE) ELSE <<>>

-----------------------------------------------------------------------------
(* store name resolution (Field.get_store_config): True -> default name, False -> nothing is
   stored, a string -> that name *)
NameOf(st, default) == IF st \in {"T", "F"} THEN default ELSE st
Saves(st) == st # "F"
(* the store is a function from the stored names to entries *)
Bind(s, n, e) == [x \in (DOMAIN s) \cup {n} |-> IF x = n THEN e ELSE s[x]]
Put(s, st, default, e) == IF Saves(st) THEN Bind(s, NameOf(st, default), e) ELSE s
Stored(s) == DOMAIN s

NoRec == [op |-> "-", pp |-> FALSE, st |-> "-", only |-> FALSE, src |-> "-", method |-> "-",
          process |-> FALSE, keepMean |-> FALSE, meanArg |-> "-", status |-> "ok",
          name |-> "-", save |-> FALSE, toks |-> <<>>, res |-> Absent, aux |-> Absent, names |-> {},
          bound |-> {}]      \* bound: the names this call is asked to (re)bind; every other stored
                             \* field must stay exactly as it is
NoChk == [srcE |-> Absent, data |-> Absent]

Calls == Len(SelectSeq(hist, LAMBDA r : r.op \in {"call", "getmean", "vario", "sibling"}))
Trans == Len(SelectSeq(hist, LAMBDA r : r.op = "transform"))

(* chk: the source entry and the data handed to the array function by the last transformation
   (only read by the invariants) *)
StepC(newStore, rec, c) ==
  /\ store' = newStore
  /\ hist' = Append(hist, [rec EXCEPT !.names = Stored(newStore)])
  /\ chk' = c
  /\ UNCHANGED cfg
Step(newStore, rec) == StepC(newStore, rec, NoChk)

-----------------------------------------------------------------------------
(* generating calls *)

(* Field(pos, field=values) and SRF(pos, seed): post_process applies the pipeline *)
PlainCall(pp, st) ==
  /\ Kind \in {"Field", "SRF"}
  /\ LET raw == <<IF Kind = "Field" THEN "in" ELSE "raw">>
         e   == Both(PushAll(raw, PostIf(cfg, pp)))
     IN  Step(Put(store, st, "field", e),
              [NoRec EXCEPT !.op = "call", !.pp = pp, !.st = st, !.name = NameOf(st, "field"),
                            !.save = Saves(st), !.res = e,
                            !.bound = IF Saves(st) THEN {NameOf(st, "field")} ELSE {}])

(* the conditioning values are detrended, normalised and freed of the mean; at the
   conditioning points the raw kriging field equals them (exact interpolator) *)
CondRaw == PushAll(<<"cond">>, PreOps(cfg, FALSE))

KrigeCall(pp, st, only) ==
  /\ Kind = "Krige"
  /\ LET e == IF only THEN Both(PushAll(<<"est">>, PostIf(cfg, pp)))
              ELSE E(PushAll(<<"kraw">>, PostIf(cfg, pp)), PushAll(CondRaw, PostIf(cfg, pp)))
         v == Both(<<"kvar">>)
         d == IF only THEN "mean_field" ELSE "field"
         s1 == Put(store, st, d, e)
         s2 == IF only \/ ~Saves(st) THEN s1 ELSE Bind(s1, "krige_var", v)
     IN  Step(s2, [NoRec EXCEPT !.op = "call", !.pp = pp, !.st = st, !.only = only,
                                !.name = NameOf(st, d), !.save = Saves(st), !.res = e,
                                !.aux = IF only THEN Absent ELSE v,
                                !.bound = IF ~Saves(st) THEN {} ELSE IF only THEN {NameOf(st, d)}
                                          ELSE {NameOf(st, d), "krige_var"}])

(* Krige.get_mean: "apply field-mean and normalizer ... neglecting a potential given trend";
   None unless the kriging system has a constant mean *)
GetMean(pp) ==
  /\ Kind = "Krige"
  /\ LET none == cfg.ktype = "universal" \/ (pp /\ cfg.mean = "call")
         t == PushAll(<<"est">>, IF pp THEN Opt(cfg.mean # "none", "addmean") \o Opt(cfg.norm, "denorm")
                                 ELSE <<>>)
     IN  Step(store, [NoRec EXCEPT !.op = "getmean", !.pp = pp,
                                   !.status = IF none THEN "none" ELSE "ok",
                                   !.res = IF none THEN Absent ELSE Both(t)])

(* Independence of objects.  A normalizer handed over as a CLASS (or None) stands for a new
   default-parameter normalizer of THIS object.  A sibling object built with the same spelling
   whose normalizer is then changed (parameters assigned: how = "set"; fitted to data by the
   library, fit_normalizer=True: how = "fit") has no documented effect on this object: nothing
   stored changes and every later result is the same documented term, evaluated with the
   parameters this object was configured with. *)
Sibling(how) ==
  /\ Kind \in {"Field", "SRF", "Krige", "CondSRF"}
  /\ cfg.nspell \in {"class", "baseclass"}
  /\ Step(store, [NoRec EXCEPT !.op = "sibling", !.src = how])

(* CondSRF: field = PostProcess(raw kriging field + scaled random field); at the conditioning
   points the kriging variance and therefore the random part vanish *)
CondCall(pp, st) ==
  /\ Kind = "CondSRF"
  /\ LET e  == E(PushAll(<<"craw">>, PostIf(cfg, pp)), PushAll(CondRaw, PostIf(cfg, pp)))
         rk == E(<<"kraw">>, CondRaw)
         kf == E(PushAll(<<"kraw">>, PostIf(cfg, pp)), PushAll(CondRaw, PostIf(cfg, pp)))
         s1 == Put(store, st, "field", e)
         s2 == IF Saves(st) THEN Bind(Bind(s1, "raw_field", Both(<<"gen">>)), "raw_krige", rk) ELSE s1
     IN  Step(s2, [NoRec EXCEPT !.op = "call", !.pp = pp, !.st = st, !.name = NameOf(st, "field"),
                                !.save = Saves(st), !.res = e,
                                \* the kriging sub-object's field is only pinned for the first call
                                !.aux = IF Calls = 0 THEN kf ELSE Absent,
                                !.bound = IF Saves(st) THEN {NameOf(st, "field"), "raw_field", "raw_krige"}
                                          ELSE {}])

(* vario_estimate(pos, field, mean=, normalizer=, trend=) estimates on the pre-processed field *)
VarioCall ==
  /\ Kind = "Vario"
  /\ Step(store, [NoRec EXCEPT !.op = "vario", !.res = Both(PushAll(<<"in">>, PreOps(cfg, FALSE)))])

-----------------------------------------------------------------------------
(* transformations (transform/field.py).  A method variant is <<method, variant>>. *)
AllMethods ==
  {<<"identity", "-">>, <<"function", "-">>, <<"binary", "default">>, <<"binary", "given">>,
   <<"discrete", "arithmetic">>, <<"discrete", "user">>, <<"discrete", "equal">>,
   <<"boxcox", "-">>, <<"zinnharvey", "-">>, <<"force_moments", "-">>, <<"lognormal", "-">>,
   <<"uniform", "-">>, <<"arcsin", "-">>, <<"uquad", "-">>}

(* which variants hand the field's mean to the array function *)
UsesMean(m) == m \in {<<"binary", "default">>, <<"discrete", "equal">>, <<"zinnharvey", "-">>,
                      <<"force_moments", "-">>, <<"uniform", "-">>, <<"arcsin", "-">>, <<"uquad", "-">>}
(* "need a normal field": without process these require the default normal configuration *)
NeedsNormal(m) == UsesMean(m)
DefaultNormal(cf) == ~cf.norm /\ cf.trend = "none" /\ cf.mean = "const"

MeanArg(cf, m, process, keepMean) ==
  IF ~UsesMean(m) THEN "-" ELSE IF process /\ ~keepMean THEN "zero" ELSE cf.mean

FnTok(m, a) == "fn:" \o m[1] \o ":" \o m[2] \o ":" \o a

Transform(m, src, st, process, keepMean) ==
  /\ Kind \in {"Field", "SRF"}
  /\ LET a        == MeanArg(cfg, m, process, keepMean)
         missing  == src \notin Stored(store)
         srcE     == IF missing THEN Absent ELSE store[src]
         rejected == ~process /\ NeedsNormal(m) /\ ~DefaultNormal(cfg)
         \* a position dependent mean (or, where the array function documents a number only: the
         \* binary defaults and force_moments, a missing mean) cannot be handed to an array
         \* function: the documentation leaves the outcome open
         open     == a = "call" \/ (m \in {<<"binary", "default">>, <<"force_moments", "-">>} /\ a = "none")
         toks     == (IF process THEN PreOps(cfg, keepMean) ELSE <<>>)
                     \o (IF m[1] = "identity" THEN <<>> ELSE <<FnTok(m, a)>>)
                     \o (IF process THEN PostOps(cfg, keepMean) ELSE <<>>)
         e        == ApplyE(srcE, toks)
         status   == IF missing THEN "keyerror" ELSE IF rejected THEN "rejected"
                     ELSE IF open THEN "open" ELSE "ok"
         rec      == [NoRec EXCEPT !.op = "transform", !.src = src, !.st = st, !.method = m[1] \o ":" \o m[2],
                                   !.process = process, !.keepMean = keepMean, !.meanArg = a,
                                   !.status = status, !.name = NameOf(st, src), !.save = Saves(st),
                                   \* the documented steps, uncancelled (what is done to the stored array)
                                   !.toks = IF status = "ok" THEN toks ELSE <<>>,
                                   !.bound = IF status = "ok" /\ Saves(st) THEN {NameOf(st, src)} ELSE {},
                                   !.res = IF status = "ok" THEN e ELSE Absent]
         data     == IF status = "ok" /\ process THEN ApplyE(srcE, PreOps(cfg, keepMean))
                     ELSE IF status = "ok" THEN srcE ELSE Absent
     IN  StepC(IF status = "ok" THEN Put(store, st, src, e) ELSE store, rec,
               [srcE |-> srcE, data |-> data])

-----------------------------------------------------------------------------
Cfgs == {cf \in [mean : MeanKinds, norm : NormKinds, trend : TrendKinds, vtype : VTypes, mesh : Meshes,
                  ktype : KTypes, nspell : NSpells] :
            IF cf.norm THEN cf.nspell \in {"instance", "class"} ELSE cf.nspell \in {"none", "baseclass"}}

Init == /\ cfg \in Cfgs
        /\ store = <<>>
        /\ hist = <<>>
        /\ chk = NoChk

Flags == {<<TRUE, TRUE>>, <<TRUE, FALSE>>, <<FALSE, TRUE>>}   \* <<process, keep_mean>>; keep_mean is
                                                               \* irrelevant without process
Next ==
  \/ /\ Calls < MaxCalls /\ Trans = 0
     /\ \/ \E pp \in BOOLEAN, st \in StoreArgs : PlainCall(pp, st) \/ CondCall(pp, st)
        \/ \E pp \in BOOLEAN, st \in StoreArgs, only \in BOOLEAN : KrigeCall(pp, st, only)
        \/ \E pp \in BOOLEAN : GetMean(pp)
        \/ VarioCall
        \* (a sibling only matters before a later call)
        \/ /\ Calls + 1 < MaxCalls
           /\ \E how \in {"set", "fit"} : Sibling(how)
  \/ /\ Calls = MaxCalls /\ Trans < MaxTrans
     /\ \E m \in (IF Trans = 0 THEN Methods1 ELSE Methods2), fl \in Flags,
           st \in {"T", "F", IF Trans = 0 THEN "alt" ELSE "alt2"} :
          \/ \E src \in Stored(store) : Transform(m, src, st, fl[1], fl[2])
          \* a field that was never stored: one representative
          \/ /\ m = <<"lognormal", "-">> /\ fl = <<FALSE, TRUE>> /\ st = "T" /\ "alt2" \notin Stored(store)
             /\ Transform(m, "alt2", st, fl[1], fl[2])

Spec == Init /\ [][Next]_vars

-----------------------------------------------------------------------------
(* design checks (TLC invariants) *)
Last == hist[Len(hist)]

(* the two documented sequences are mutually inverse, step by step and as a whole *)
InverseOrder ==
  \A km \in BOOLEAN :
     LET po == PostOps(cfg, km)  pr == PreOps(cfg, km)
     IN  /\ Len(po) = Len(pr)
         /\ \A i \in DOMAIN po : pr[i] = Inv(po[Len(po) + 1 - i])
PreInvertsPost ==
  \A km \in BOOLEAN :
     /\ PushAll(PushAll(<<"x">>, PostOps(cfg, km)), PreOps(cfg, km)) = <<"x">>
     /\ PushAll(PushAll(<<"x">>, PreOps(cfg, km)), PostOps(cfg, km)) = <<"x">>

(* an object with conditioning data returns the data at the conditioning points *)
HonoursData ==
  (hist # <<>> /\ Last.op = "call" /\ Last.pp /\ ~Last.only /\ Kind \in {"Krige", "CondSRF"}) =>
     At(Last.res) = <<"cond">>

(* every generated output has the documented form *)
DocumentedForm ==
  (hist # <<>> /\ Last.op = "call" /\ Kind \in {"Field", "SRF"}) =>
     Off(Last.res) = (<<IF Kind = "Field" THEN "in" ELSE "raw">>
                     \o (IF Last.pp THEN Opt(cfg.mean # "none", "addmean") \o Opt(cfg.norm, "denorm")
                                         \o Opt(cfg.trend # "none", "addtrend") ELSE <<>>))

(* the identity transformation leaves a field unchanged, with and without processing
   (pre-processing followed by post-processing cancels on every term) *)
IdentityIsNoop ==
  (hist # <<>> /\ Last.op = "transform" /\ Last.status = "ok" /\ Last.method = "identity:-") =>
     Last.res = chk.srcE

(* the mean handed to the array function is the mean the data really carry: for a field that
   was generated with post-processing, the data after pre-processing are  raw (+ mean) *)
MeanArgConsistent ==
  (hist # <<>> /\ Last.op = "transform" /\ Last.status = "ok" /\ Last.meanArg # "-"
     /\ Len(hist) = 2 /\ hist[1].op = "call" /\ hist[1].pp) =>
        LET data == Off(chk.data)
        IN  /\ Len(data) <= 2
            /\ Len(data) = 1 => Last.meanArg \in {"zero", "none"}
            /\ Len(data) = 2 => (data[2] = "addmean" /\ Last.meanArg = cfg.mean)

(* only documented names are ever bound, and a transformation that is not stored or fails
   leaves the set of stored fields unchanged *)
StoreDiscipline ==
  hist # <<>> =>
     /\ (Last.save /\ Last.status = "ok" /\ Last.op \in {"call", "transform"}) => Last.name \in Last.names
     /\ (Len(hist) > 1 /\ (~Last.save \/ Last.status # "ok")) => Last.names = hist[Len(hist) - 1].names

(* no call touches a stored field it was not asked to (re)bind: in particular a processed
   transformation stored under another name (or not at all) leaves its source as it is, so a
   second transformation of the same source starts from the same values (action property) *)
EarlierFieldsUntouched ==
  [][\A n \in DOMAIN store :
        n \notin hist'[Len(hist')].bound => (n \in DOMAIN store' /\ store'[n] = store[n])]_vars
=============================================================================
