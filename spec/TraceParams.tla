----------------------------- MODULE TraceParams -----------------------------
(***************************************************************************)
(* Trace validation for the parameter machine (code -> spec direction of   *)
(* C14).  A Python driver that knows nothing of TLC's behaviours performs  *)
(* random assignments on real CovModel objects and logs one event per      *)
(* public call *after* it returned (also on the error path): operation,    *)
(* arguments, and the projection of the real model onto the spec state.    *)
(* Many executions are batched in one file; an "Init" event starts a new   *)
(* execution (a model constructed directly with the logged values).        *)
(*                                                                         *)
(* Every event is replayed through the *same* action of Params with the    *)
(* logged arguments; the invariant TraceMatches then compares the spec     *)
(* state with the logged projection, so the first unexplained event is     *)
(* reported with its index.  An event whose action is not enabled leaves   *)
(* the trace unconsumed (TraceAccepted fails).                             *)
(***************************************************************************)
EXTENDS Params, Json, IOUtils

Log == JsonDeserialize(IOEnv.TRACE_FILE)

VARIABLE l      \* index of the next event

tvars == <<dim, len, anis, angles, varRaw, nugget, rescale, opt, bnd, custom, status, op, l>>

E == Log[l]

BoundsOf(p) == [a \in Args |-> B(p.bnd[a].lo, p.bnd[a].hi, p.bnd[a].lc, p.bnd[a].hc)]
ToSet(s) == {s[i] : i \in 1..Len(s)}

(* a model constructed directly: the logged projection is taken over *)
Load(p) ==
  /\ dim' = p.dim /\ len' = p.len /\ anis' = p.anis /\ angles' = p.angles
  /\ varRaw' = p.varRaw /\ nugget' = p.nugget /\ rescale' = p.rescale /\ opt' = p.opt
  /\ bnd' = BoundsOf(p) /\ custom' = ToSet(p.custom) /\ status' = "Ok"
  /\ op' = [name |-> "Init"]

TraceInit ==
  /\ l = 2 /\ Log[1].name = "Init"
  /\ LET p == Log[1].post IN
     /\ dim = p.dim /\ len = p.len /\ anis = p.anis /\ angles = p.angles
     /\ varRaw = p.varRaw /\ nugget = p.nugget /\ rescale = p.rescale /\ opt = p.opt
     /\ bnd = BoundsOf(p) /\ custom = ToSet(p.custom) /\ status = "Ok"
     /\ op = [name |-> "Init"]

Step ==
  CASE E.name = "Init"         -> Load(E.post)
    [] E.name = "SetVar"       -> SetVar(E.v)
    [] E.name = "SetVarRaw"    -> SetVarRaw(E.v)
    [] E.name = "SetNugget"    -> SetNugget(E.v)
    [] E.name = "SetLenScalar" -> SetLenScalar(E.v)
    [] E.name = "SetLenList"   -> SetLenList(E.s)
    [] E.name = "SetAnis"      -> SetAnis(E.s)
    [] E.name = "SetAngles"    -> SetAngles(E.s)
    [] E.name = "SetDim"       -> SetDim(E.v)
    [] E.name = "SetOpt"       -> SetOpt(E.v)
    [] E.name = "SetRescale"   -> SetRescale(E.v)
    [] E.name = "SetIntScale"  -> SetIntScale(E.s)
    [] E.name = "SetBounds"    -> SetBounds(E.arg, B(E.b.lo, E.b.hi, E.b.lc, E.b.hc), E.check)
    [] E.name = "SetBounds2"   -> SetBounds2(B(E.bv.lo, E.bv.hi, E.bv.lc, E.bv.hc), B(E.bl.lo, E.bl.hi, E.bl.lc, E.bl.hc))

TraceNext == l <= Len(Log) /\ Step /\ l' = l + 1

TraceSpec == TraceInit /\ [][TraceNext]_tvars

(* the spec state after consuming event l-1 equals what the real model showed *)
Logged == Log[l - 1]
TraceMatches ==
  \/ Logged.name = "Init"
  \/ IF status = "Rejected"
     THEN Logged.raised                      \* a rejected assignment must have raised
     ELSE /\ ~Logged.raised
          /\ dim = Logged.post.dim /\ len = Logged.post.len /\ anis = Logged.post.anis
          /\ angles = Logged.post.angles /\ varRaw = Logged.post.varRaw
          /\ nugget = Logged.post.nugget /\ rescale = Logged.post.rescale
          /\ (HasOpt => opt = Logged.post.opt)
          /\ bnd = BoundsOf(Logged.post)

(* every event must be explainable by its action (totality of the verdict: the index of the
   first unexplained event is in the counterexample) *)
NotStuck == l <= Len(Log) => ENABLED Step

TraceAccepted == TLCGet("stats").diameter = Len(Log)
=============================================================================
