------------------------------ MODULE TraceFit ------------------------------
(***************************************************************************)
(* Trace validation for Fit (property C10).                                *)
(*                                                                         *)
(* A run of the real `fit_variogram` is recorded at the curve_fit          *)
(* interface: the box and start vector handed to the optimiser, the        *)
(* argument vector and the public model after (a tail of) the curve        *)
(* evaluations, the vector the optimiser returned, the final model, the    *)
(* returned dictionary or the exception.  Floats are mapped to fixed point *)
(* numbers <<h, l>> = h * 2^-16 + l * 2^-44 (0 <= l < 2^28), on which the  *)
(* value operators of Fit are exact integer arithmetic.                    *)
(*                                                                         *)
(* Every step of a run is explained with the operators of Fit:             *)
(*   tv.impl   where the run differs from the code-shaped transcription    *)
(*             (hidden state, reported as drift),                          *)
(*   tv.ideal  where its outcome is not an outcome the documented          *)
(*             semantics admits for the recorded optimum (property level), *)
(*   tv.edge   cases the documentation does not describe (optimiser hit an *)
(*             open bound, start vector with infinite cost, ...).          *)
(***************************************************************************)
EXTENDS Fit

CONSTANTS Runs    \* sequence of recorded runs (see the driver for the record layout)

VARIABLES rid, run, k, tv     \* run = Runs[rid] (kept in the state: TLC re-evaluates a substituted constant)
tvars == <<cfg, phase, ialts, cp, cm, evs, popt, iends, cend, disc, rid, run, k, tv>>

FxB   == 268435456        \* 2^28
FxTol == 16               \* 16 * 2^-44 = 9.1e-13
FxPlus(a, b)  == LET l == a[2] + b[2]
                 IN IF l >= FxB THEN <<a[1] + b[1] + 1, l - FxB>> ELSE <<a[1] + b[1], l>>
FxMinus(a, b) == LET l == a[2] - b[2]
                 IN IF l < 0 THEN <<a[1] - b[1] - 1, l + FxB>> ELSE <<a[1] - b[1], l>>
FxLe(a, b)    == a[1] < b[1] \/ (a[1] = b[1] /\ a[2] <= b[2])
FxSame(a, b)  == LET d == FxMinus(a, b)
                 IN (d[1] = 0 /\ d[2] <= FxTol) \/ (d[1] = -1 /\ d[2] >= FxB - FxTol)
FxNoTPL(cl, a, b, o) == Assert(FALSE, "TPL classes are not trace validated")

-----------------------------------------------------------------------------
R == run

B2N(b) == IF b THEN 1 ELSE 0
Arity(c, pp) == B2N(pp.para.var) + B2N(pp.para.len) + B2N(pp.para.nug) + B2N(pp.para.opt)
                + (IF pp.fanis THEN c.dim - 1 ELSE 0)
PosOf(pp, p) ==
  CASE p = "var" -> 1
    [] p = "len" -> 1 + B2N(pp.para.var)
    [] p = "nug" -> 1 + B2N(pp.para.var) + B2N(pp.para.len)
    [] p = "opt" -> 1 + B2N(pp.para.var) + B2N(pp.para.len) + B2N(pp.para.nug)

(* the argument vector of the closure: var, len_scale, nugget, optional argument,
   anisotropy ratios (last dim - 1 entries); entries that are not fitted are
   placeholders                                                               *)
VecOf(c, pp, s) ==
  LET pm == Pub(c, pp.m) IN
  [var  |-> IF pp.para.var THEN s[PosOf(pp, "var")] ELSE pm.var,
   len  |-> IF pp.para.len THEN s[PosOf(pp, "len")] ELSE pm.len,
   nug  |-> IF pp.para.nug THEN s[PosOf(pp, "nug")] ELSE pm.nug,
   opt  |-> IF pp.para.opt THEN s[PosOf(pp, "opt")] ELSE pm.opt,
   anis |-> IF pp.fanis THEN SubSeq(s, Len(s) - (c.dim - 1) + 1, Len(s)) ELSE pm.anis]

D(t, same) == IF same THEN {} ELSE {t}
PubDiff(prefix, a, b) ==
  D(prefix \o "var", Same(a.var, b.var)) \cup D(prefix \o "len", Same(a.len, b.len))
  \cup D(prefix \o "nug", Same(a.nug, b.nug)) \cup D(prefix \o "opt", Same(a.opt, b.opt))
  \cup D(prefix \o "anis", SameSeq(a.anis, b.anis))

FitNames(pp) == {p \in Params : pp.para[p]}

(* the recorded box against the transcription *)
BoxDiff(c, pp) ==
  UNION {D("box:" \o p, /\ R.lo[PosOf(pp, p)] = pp.box[p].lo
                        /\ R.hi[PosOf(pp, p)] = pp.box[p].hi) : p \in FitNames(pp)}
  \cup (IF pp.fanis
        THEN D("box:anis", \A i \in (Len(R.lo) - (c.dim - 1) + 1)..Len(R.lo) :
                              R.lo[i] = pp.box.anis.lo /\ R.hi[i] = pp.box.anis.hi)
        ELSE {})
(* the start vector must lie in the box it is passed with *)
P0InBox == \A i \in DOMAIN R.p0 : Le(R.lo[i], R.p0[i]) /\ Le(R.p0[i], R.hi[i])

(* x violates the bounds of a fitted argument only by sitting ON an open end *)
OnOpenEnd(b, v) == (~b.lc /\ v = b.lo) \/ (~b.hc /\ v = b.hi)
OnlyOpenEnds(c, pp, x) ==
  /\ \A p \in Params : (pp.para[p] /\ ~InB(c.bnd[p], x[p])) => OnOpenEnd(c.bnd[p], x[p])
  /\ (pp.fanis => \A i \in DOMAIN x.anis : ~InB(c.bnd.anis, x.anis[i]) => OnOpenEnd(c.bnd.anis, x.anis[i]))

-----------------------------------------------------------------------------
TInit ==
  /\ \E rs \in {Runs} : rid \in DOMAIN rs /\ run = rs[rid]
  /\ k = 0
  /\ tv = [impl |-> {}, ideal |-> {}, edge |-> {}]
  /\ cfg = run.cfg
  /\ phase = "start" /\ ialts = {} /\ cp = CErr(cfg, "-") /\ cm = RawM(cfg, cfg.pre)
  /\ evs = <<>> /\ popt = cfg.pre /\ iends = {} /\ cend = CEndErr(cfg) /\ disc = {}

(* preprocessing: compared with what reached curve_fit (or with the exception) *)
TPre ==
  /\ phase = "start"
  /\ ialts' = IdealPre(cfg) /\ cp' = ImplPre(cfg) /\ cm' = cp'.m
  /\ UNCHANGED <<cfg, evs, popt, iends, cend, disc, rid, run, k>>
  /\ IF R.called
     THEN IF cp'.st = "ready" /\ Arity(cfg, cp') = Len(R.lo)
          THEN /\ phase' = "ready"
               /\ tv' = [impl  |-> BoxDiff(cfg, cp') \cup PubDiff("pre:", Pub(cfg, cp'.m), R.ready),
                         ideal |-> IF \A q \in ialts' : q.st = "error" THEN {"error:missing"} ELSE {},
                         edge  |-> D("p0:outside-box", P0InBox)]
          ELSE /\ phase' = "done"
               /\ tv' = [impl  |-> IF cp'.st = "nofit" THEN {} ELSE {"pre:status"},
                         ideal |-> IF \A q \in ialts' : q.st = "error" THEN {"error:missing"} ELSE {},
                         edge  |-> IF \E q \in ialts' : q.st = "nofit" THEN {"nothing-to-fit"} ELSE {}]
     ELSE /\ phase' = "done"
          /\ tv' = [impl  |-> D("pre:status", cp'.st = "error" \/ (cp'.st = "nofit" /\ R.st = "other")),
                    ideal |-> IF R.st = "error"
                              THEN D("error:spurious", \E q \in ialts' : q.st \in {"error", "nofit"})
                              ELSE D("exception:other", \E q \in ialts' : q.st = "nofit"),
                    edge  |-> IF \E q \in ialts' : q.st = "nofit" THEN {"nothing-to-fit"} ELSE {}]

(* one recorded evaluation of the closure *)
TEval ==
  /\ phase = "ready" /\ k < Len(R.evals)
  /\ LET e == R.evals[k + 1]
         x == VecOf(cfg, cp, e.x)
     IN /\ k' = k + 1
        /\ IF e.raised
           THEN /\ cm' = cm
                /\ tv' = [tv EXCEPT !.impl = @ \cup D("eval:raise", SetterRaises(cfg, cp, x))]
           ELSE /\ cm' = ImplEval(cfg, cp, cm, x)
                /\ tv' = [tv EXCEPT !.impl = @ \cup PubDiff("eval:", Pub(cfg, cm'), e.after)
                                          \cup D("eval:inf", e.inf = Infeasible(cfg, cp, x))
                                          \cup D("eval:raise", ~SetterRaises(cfg, cp, x) \/ Infeasible(cfg, cp, x))]
  /\ UNCHANGED <<cfg, phase, ialts, cp, evs, popt, iends, cend, disc, rid, run>>

(* the end of the run *)
RecEnd == [st |-> "ok",
           m  |-> [raw |-> R.final.var, len |-> R.final.len, nug |-> R.final.nug,
                   opt |-> R.final.opt, anis |-> R.final.anis],
           ret |-> R.ret]

TFinish ==
  /\ phase = "ready" /\ k = Len(R.evals) /\ phase' = "done"
  /\ UNCHANGED <<cfg, ialts, cp, cm, evs, rid, run, k>>
  /\ IF R.st = "ok"
     THEN LET x == VecOf(cfg, cp, R.popt) IN
          /\ popt' = x
          /\ cend' = IF SetterRaises(cfg, cp, x) THEN CEndErr(cfg) ELSE ImplPost(cfg, cp, cm, x)
          /\ iends' = IEnds(cfg, ialts, x)
          /\ disc' = Disc(cfg, iends', cend')
          /\ tv' = [tv EXCEPT
                    !.impl  = @ \cup (IF cend'.st = "ok"
                                      THEN PubDiff("final:", Pub(cfg, cend'.m), R.final)
                                           \cup PubDiff("dict:", cend'.ret, R.ret)
                                      ELSE {"final:status"}),
                    !.ideal = @ \cup Disc(cfg, iends', RecEnd)]
     ELSE \* an exception left curve_fit: classify by the last evaluation
          LET last == IF Len(R.evals) > 0 THEN VecOf(cfg, cp, R.evals[Len(R.evals)].x) ELSE Pub(cfg, cp.m)
              fromCurve == R.st = "error" /\ Len(R.evals) > 0 /\ R.evals[Len(R.evals)].raised
          IN
          /\ UNCHANGED <<popt, cend, iends, disc>>
          /\ tv' = [tv EXCEPT
                    !.ideal = @ \cup
                       (IF fromCurve
                        THEN (IF OnlyOpenEnds(cfg, cp, last) THEN {}
                              ELSE IF \E q \in ialts : q.st = "ready" /\ InIdealBox(cfg, q, last)
                                   THEN {"error:spurious"} ELSE {"error:in-box"})
                        ELSE {}),
                    !.edge = @ \cup
                       (IF fromCurve
                        THEN (IF OnlyOpenEnds(cfg, cp, last) /\ SetterRaises(cfg, cp, last)
                              THEN {"optimiser-on-open-bound"} ELSE {})
                        ELSE {"optimiser-failed"})]

TNext == TPre \/ TEval \/ TFinish
=============================================================================
