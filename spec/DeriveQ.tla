------------------------------- MODULE DeriveQ -------------------------------
(***************************************************************************)
(* Exact rational arithmetic for Derive.tla.  A rational is a pair         *)
(* <<num, den>> in lowest terms with den > 0.  Sums are formed over the    *)
(* least common denominator and products are cross-cancelled first, so the *)
(* intermediate integers stay as small as the result allows.  TLC integers *)
(* are 32 bit; TLC raises an overflow error (never wraps silently), which  *)
(* the harness treats as a machinery failure.                              *)
(***************************************************************************)
EXTENDS Integers, Sequences, TLC

Abs(x) == IF x < 0 THEN -x ELSE x

RECURSIVE Gcd(_, _)
Gcd(a, b) == IF b = 0 THEN a ELSE Gcd(b, a % b)

Norm(q) ==
  IF q[2] = 0 THEN Assert(FALSE, <<"zero denominator", q>>)
  ELSE LET g == Gcd(Abs(q[1]), Abs(q[2]))
           s == IF q[2] < 0 THEN -1 ELSE 1
       IN <<s * (q[1] \div g), s * (q[2] \div g)>>

Q(n, d) == Norm(<<n, d>>)
QI(n)   == <<n, 1>>
Zero    == <<0, 1>>
One     == <<1, 1>>

IsQ(q) == /\ q \in Int \X Int
          /\ q[2] > 0
          /\ Gcd(Abs(q[1]), q[2]) = 1

Neg(a) == <<-a[1], a[2]>>

Add(a, b) ==
  LET g == Gcd(a[2], b[2])
  IN Norm(<<a[1] * (b[2] \div g) + b[1] * (a[2] \div g), (a[2] \div g) * b[2]>>)

Sub(a, b) == Add(a, Neg(b))

Mul(a, b) ==
  LET g1 == Gcd(Abs(a[1]), b[2])
      g2 == Gcd(Abs(b[1]), a[2])
  IN Norm(<<(a[1] \div g1) * (b[1] \div g2), (a[2] \div g2) * (b[2] \div g1)>>)

Inv(a) == IF a[1] = 0 THEN Assert(FALSE, "division by zero") ELSE Norm(<<a[2], a[1]>>)
Div(a, b) == Mul(a, Inv(b))

Sign(a)    == IF a[1] < 0 THEN -1 ELSE IF a[1] = 0 THEN 0 ELSE 1
(* comparison by continued fractions: no products, hence no overflow *)
RECURSIVE Less(_, _)
Less(a, b) ==
  LET fa == a[1] \div a[2]          \* floor
      fb == b[1] \div b[2]
      ra == a[1] - fa * a[2]        \* 0 <= ra < a[2]
      rb == b[1] - fb * b[2]
  IN IF fa # fb THEN fa < fb
     ELSE IF rb = 0 THEN FALSE
     ELSE IF ra = 0 THEN TRUE
     ELSE Less(<<b[2], rb>>, <<a[2], ra>>)
Leq(a, b)  == ~Less(b, a)
QAbs(a)    == <<Abs(a[1]), a[2]>>

RECURSIVE Pow(_, _)
Pow(a, n) == IF n = 0 THEN One ELSE Mul(a, Pow(a, n - 1))

(* 2^e for a (possibly negative) exponent e *)
RECURSIVE IPow2(_)
IPow2(n) == IF n = 0 THEN 1 ELSE 2 * IPow2(n - 1)
Pow2(e) == IF e >= 0 THEN <<IPow2(e), 1>> ELSE <<1, IPow2(-e)>>

(* exact integer square root: defined only on perfect squares *)
IsSquare(s)  == \E k \in 0..64 : k * k = s
ExactSqrt(s) == CHOOSE k \in 0..64 : k * k = s
=============================================================================
