------------------------------ MODULE KrigeSys ------------------------------
(***************************************************************************)
(* Exact solution of the kriging equations on an integer / polynomial      *)
(* family (properties C05 and C06).                                        *)
(*                                                                         *)
(* A configuration `cfg` (chosen nondeterministically in Init) fixes       *)
(*   - the covariance model: Linear / Spherical / Cubic with an integer    *)
(*     length scale L, integer variance and nugget.  At an integer lag d   *)
(*     the correlation is a rational with denominator DD = L, 2L^3, 4L^7,  *)
(*     so every covariance is an integer in units of 1/DD;                 *)
(*   - the conditioning points (integer positions, 1-D or 2-D with an      *)
(*     integer stretch of the second axis = 1/anis, all occurring          *)
(*     distances below L are integers), integer values;                    *)
(*   - the variant: unbiasedness row, functional drift rows, one external  *)
(*     drift row, mean, trend, `exact`, measurement errors;                *)
(*   - the targets;                                                        *)
(*   - the units (`lunit`, `vunit`): the kriging equations only contain    *)
(*     lag / len_scale and ratios of covariances, so a common factor       *)
(*     2^lunit on all positions and the length scale changes nothing, a    *)
(*     factor 2^ev on the data (values, mean, trend) multiplies the        *)
(*     estimate by 2^ev and a factor 2^ec on variance, nugget and          *)
(*     measurement errors multiplies the kriging variance by 2^ec          *)
(*     (theorems LengthUnitInvariant, ValueUnitScaling, checked with       *)
(*     small integer factors).  Powers of two are exact in floating point, *)
(*     so `out` (computed for unit 1) is the expected result of the        *)
(*     implementation in every unit after dividing by 2^ev / 2^ec.         *)
(*   - (used by the histories of KrigeSysHist) a rotation of the main axes *)
(*     by `quarter` quarter turns and an affine normalizer y = k (x - s),  *)
(*     `norm` = <<k, s>>, so that field(t) = (mean(t) + sum w z') / k + s  *)
(*     + trend(t) with z' = k (z - trend - s) - mean.                      *)
(* `out` is what the documentation / kriging theory prescribes:            *)
(*                                                                         *)
(*      | C + diag(err)   F^T |   | w  |     | k(t) |                      *)
(*      |                     | * |    |  =  |      |                      *)
(*      |      F           0  |   | mu |     | f(t) |                      *)
(*                                                                         *)
(*   rows of F: ones (unbiased), functional drifts, external drifts;       *)
(*   k(t) = covariance between data and target (sill at zero lag when      *)
(*   `exact`), field(t) = mean(t) + trend(t) + sum_i w_i z'_i  with        *)
(*   z' = z - trend - mean,  variance(t) = max(sill - w.k - mu.f, 0).      *)
(*                                                                         *)
(* The covariance block is kept in units of 1/DD and the Lagrange          *)
(* multipliers are scaled by DD, so the system is an integer system with   *)
(* the same layout; it is solved by Cramer's rule (cofactors obtained by   *)
(* recursive Laplace expansion).  Every result is a rational <<num, den>>  *)
(* with den > 0.  TLC integers are 32 bit and TLC raises an error on       *)
(* overflow, so a result that is printed is exact.                         *)
(*                                                                         *)
(* TLC evaluates LET definitions and operator arguments by name, i.e. again *)
(* at every reference; the operators below therefore bind every            *)
(* intermediate result once with With(value, LAMBDA x : ...).              *)
(*                                                                         *)
(* Theorems: the cheap ones (TypeOK, ExactAtData, ZeroVarianceAtData,      *)
(* VarianceNonNegative, VarianceLeSillSimple) are invariants of every      *)
(* enumerated configuration; the others (PermutationInvariantCond/Tgt,     *)
(* ChunkIndependent, LinearInData, ReproducesConstants, ReproducesDrift,   *)
(* MeanIrrelevantWhenUnbiased, TrendActsAsMean, DuplicatesMerge) re-solve  *)
(* modified configurations and are checked in the smaller theorem jobs.    *)
(* ChunksPartition lives in KrigeSysChunks.                                *)
(*                                                                         *)
(* Coincident conditioning points with zero error make the system          *)
(* singular; the documented behaviour (pseudo inverse) is that they "act   *)
(* as a single point carrying their mean value": the expected result is    *)
(* defined through the reduced system (DuplicatesMerge shows that it is    *)
(* the equal-weight solution of the full singular system).                 *)
(***************************************************************************)
EXTENDS Integers, Sequences, FiniteSets, TLC, KrigeSysChunks

CONSTANTS
  Models,      \* subset of {"Linear", "Spherical", "Cubic"}
  Dim,         \* 1 | 2
  Stretch,     \* integer stretch of the second axis (= 1/anis), 1 in 1-D
  Lens, Vars, Nugs,
  Variants,    \* set of [cls, unb, drift, ext, mean, trend]
  PosSets,     \* set of sequences of points (a point is a sequence of Dim integers)
  ValSeqs,     \* [n -> set of value sequences of length n]
  ErrSpecs,    \* set of [mode, e, pat]: "nugget" | "scalar" (e) | "list" (pat)
  Exacts,      \* subset of BOOLEAN
  Targets,     \* sequence of points
  LUnit,       \* length unit: positions, targets and len_scale are multiplied by 2^LUnit
  VUnit,       \* <<ev, ec>>: data (values, mean, trend) times 2^ev; variance, nugget, errors times 2^ec
  MaxFree,     \* bound on (#points - #constraint rows): keeps |det| inside 32 bit
  WithRejected \* also enumerate exact=TRUE with an explicit measurement error

VARIABLES cfg, out
vars == <<cfg, out>>

-----------------------------------------------------------------------------
(* small helpers *)
(* TLC evaluates operator arguments and LET definitions by name (again at every reference).
   With(v, Op) evaluates v ONCE and evaluates Op with its parameter bound to that value. *)
With(v, Op(_)) == CHOOSE r \in {Op(x) : x \in {v}} : TRUE

RECURSIVE SumRec(_, _)
SumRec(f, n) == IF n = 0 THEN 0 ELSE f[n] + SumRec(f, n - 1)       \* f must be a bound value
SumTo(f0, n) == With(f0, LAMBDA f : SumRec(f, n))
Sum(f) == SumTo(f, Len(f))

Idx(n) == [i \in 1..n |-> i]
Norm(q) == IF q[2] < 0 THEN <<0 - q[1], 0 - q[2]>> ELSE q
None == <<0, 0>>            \* "no value" (e.g. get_mean() = None)

(* determinant by recursive Laplace expansion (along the last row, which holds the zero block of
   a kriging matrix) on index lists: DetRC(A, rs, cs) is the determinant of the sub-matrix of A
   with rows rs and columns cs; sizes <= 3 are the written-out expansions *)
Drop(s, j) == [k \in 1..(Len(s) - 1) |-> IF k < j THEN s[k] ELSE s[k + 1]]
Sign(k) == IF k % 2 = 0 THEN 1 ELSE -1

RECURSIVE DetRC(_, _, _)
DetRC(A, rs, cs) ==      \* A, rs, cs must be bound values
  LET n == Len(rs) IN
  IF n = 0 THEN 1
  ELSE IF n = 1 THEN A[rs[1]][cs[1]]
  ELSE IF n = 2 THEN A[rs[1]][cs[1]] * A[rs[2]][cs[2]] - A[rs[1]][cs[2]] * A[rs[2]][cs[1]]
  ELSE IF n = 3 THEN
       LET a == A[rs[1]]  b == A[rs[2]]  d == A[rs[3]]
           p == cs[1]  q == cs[2]  r == cs[3]
       IN   a[p] * (b[q] * d[r] - b[r] * d[q])
          - a[q] * (b[p] * d[r] - b[r] * d[p])
          + a[r] * (b[p] * d[q] - b[q] * d[p])
  ELSE With(SubSeq(rs, 1, n - 1), LAMBDA rs1 :
         SumTo([j \in 1..n |->
                 IF A[rs[n]][cs[j]] = 0 THEN 0
                 ELSE Sign(n + j) * A[rs[n]][cs[j]] * With(Drop(cs, j), LAMBDA cs1 : DetRC(A, rs1, cs1))], n))

Det(A0) == With(A0, LAMBDA A : With(Idx(Len(A)), LAMBDA id : DetRC(A, id, id)))

(* cofactor matrix of a SYMMETRIC matrix (so it equals the adjugate); upper triangle computed *)
Cofactors(A) ==          \* A must be a bound value
  With(Idx(Len(A)), LAMBDA id :
    With([i \in 1..Len(A) |-> [j \in 1..Len(A) |->
            IF i <= j THEN Sign(i + j) * With(Drop(id, i), LAMBDA ri : With(Drop(id, j), LAMBDA cj : DetRC(A, ri, cj)))
            ELSE 0]],
         LAMBDA up : [i \in 1..Len(A) |-> [j \in 1..Len(A) |-> IF i <= j THEN up[i][j] ELSE up[j][i]]]))

-----------------------------------------------------------------------------
(* covariance family: correlation * DD at squared distance d2 *)
DD(c) == CASE c.model = "Linear"    -> c.len
           [] c.model = "Spherical" -> 2 * c.len^3
           [] c.model = "Cubic"     -> 4 * c.len^7

(* squared distance in isotropic coordinates: the second main axis is stretched by c.stretch
   (= 1/anis); the main axes are rotated by c.quarter quarter turns (angles = quarter * pi/2) *)
Dist2(c, p, q) ==
  LET dx == p[1] - q[1]
      dy == IF Len(p) = 2 THEN p[2] - q[2] ELSE 0
      a  == IF c.quarter % 2 = 0 THEN dx ELSE dy          \* along the main axis
      b  == IF c.quarter % 2 = 0 THEN dy ELSE dx          \* along the second axis
  IN a * a + (c.stretch * b) * (c.stretch * b)

CorInt(c, d2) ==
  LET L == c.len IN
  IF d2 >= L * L THEN 0
  ELSE LET d == CHOOSE r \in 0..L : r * r = d2    \* fails (TLC error) off the lattice
       IN CASE c.model = "Linear"    -> L - d
            [] c.model = "Spherical" -> 2 * L^3 - 3 * d * L^2 + d^3
            [] c.model = "Cubic"     -> 4 * L^7 - 28 * d^2 * L^5 + 35 * d^3 * L^4
                                        - 14 * d^5 * L^2 + 3 * d^7

OnLatticeD2(c, d2) == d2 >= c.len * c.len \/ \E r \in 0..c.len : r * r = d2
(* every lag that matters (below the range) between data/data and data/targets is an integer *)
OnLattice(c) ==
  /\ \A i, j \in 1..Len(c.pos) : OnLatticeD2(c, Dist2(c, c.pos[i], c.pos[j]))
  /\ \A i \in 1..Len(c.pos) : \A k \in 1..Len(c.tgt) : OnLatticeD2(c, Dist2(c, c.pos[i], c.tgt[k]))

CovInt(c, p, q)    == c.var * CorInt(c, Dist2(c, p, q))
SillInt(c)         == (c.var + c.nug) * DD(c)
CovNugInt(c, p, q) == IF Dist2(c, p, q) = 0 THEN SillInt(c) ELSE CovInt(c, p, q)

-----------------------------------------------------------------------------
(* constraint rows, in the documented order: ones, functional drifts, external drift.
   External drift values are arbitrary data; here they are two fixed integer functions of the
   position ("bowl": (x-2)^2 capped at 9, "alt": parity of x), tabulated in out.edc / out.edt. *)
FTags(c) == (IF c.unb THEN <<"one">> ELSE <<>>)
            \o (IF c.drift = 1 THEN (IF c.dim = 2 THEN <<"x", "y">> ELSE <<"x">>) ELSE <<>>)
            \o (IF c.ext # "none" THEN <<c.ext>> ELSE <<>>)

ExtVal(tag, p) == CASE tag = "bowl" -> LET d == p[1] - 2 IN IF d * d > 9 THEN 9 ELSE d * d   \* bounded
                    [] tag = "alt" -> p[1] % 2
                    [] tag = "one" -> 1

FVal(tag, p) == CASE tag = "one" -> 1
                  [] tag = "x"   -> p[1]
                  [] tag = "y"   -> p[2]
                  [] OTHER       -> ExtVal(tag, p)

Lin(ab, p) == ab[1] + ab[2] * p[1]           \* mean / trend functions a + b x

(* effective measurement error per point (integer; units of variance) *)
ErrOf(c) == [i \in 1..Len(c.pos) |->
               CASE c.err.mode = "nugget" -> c.nug
                 [] c.err.mode = "scalar" -> c.err.e
                 [] c.err.mode = "list"   -> c.err.pat[i]]

HasDup(ps) == \E i, j \in 1..Len(ps) : i < j /\ ps[i] = ps[j]
AllZero(s) == \A i \in 1..Len(s) : s[i] = 0
Merges(c)  == HasDup(c.pos) /\ AllZero(ErrOf(c))

(* the system that is solved: coincident points with zero error are merged *)
MM == 12          \* common denominator of the averaged values (group sizes 1..4)
RepIdx(c) == IF Merges(c)
             THEN SelectSeq(Idx(Len(c.pos)), LAMBDA i : \A j \in 1..(i - 1) : c.pos[j] # c.pos[i])
             ELSE Idx(Len(c.pos))
(* prepared data: detrended, normalised (affine normalizer y = k * (x - s), c.norm = <<k, s>>;
   <<1, 0>> is the identity), mean-free *)
Prime(c) == [i \in 1..Len(c.pos) |->
               c.norm[1] * (c.val[i] - Lin(c.trend, c.pos[i]) - c.norm[2]) - Lin(c.mean, c.pos[i])]

Sys(c) ==                \* c must be a bound value
  With(RepIdx(c), LAMBDA rep : With(Prime(c), LAMBDA zp : With(ErrOf(c), LAMBDA e : With(Merges(c), LAMBDA mg :
    LET N == Len(rep)
        n == Len(c.pos)
        grp(g) == {i \in 1..n : c.pos[i] = c.pos[rep[g]]}
        cnt(g) == IF mg THEN Cardinality(grp(g)) ELSE 1
        zs(g)  == IF mg
                  THEN (MM \div cnt(g)) * SumTo([i \in 1..n |-> IF c.pos[i] = c.pos[rep[g]] THEN zp[i] ELSE 0], n)
                  ELSE zp[rep[g]]
    IN [P |-> [g \in 1..N |-> c.pos[rep[g]]],
        Z |-> [g \in 1..N |-> zs(g)],
        E |-> [g \in 1..N |-> e[rep[g]]],
        cnt |-> [g \in 1..N |-> cnt(g)],
        M |-> IF mg THEN MM ELSE 1]))))

(* documented layout of the kriging matrix (covariance block in units 1/DD) *)
KMat(c, P, E) ==         \* c, P, E must be bound values
  With(FTags(c), LAMBDA F : With(DD(c), LAMBDA dd :
    [i \in 1..(Len(P) + Len(F)) |-> [j \in 1..(Len(P) + Len(F)) |->
        IF i <= Len(P) /\ j <= Len(P) THEN CovInt(c, P[i], P[j]) + (IF i = j THEN E[i] * dd ELSE 0)
        ELSE IF i <= Len(P) THEN FVal(F[j - Len(P)], P[i])
        ELSE IF j <= Len(P) THEN FVal(F[i - Len(P)], P[j])
        ELSE 0]]))

(* right-hand side for target t (covariances in units 1/DD) *)
Rhs(c, P, t, onlyMean) ==        \* c, P, t must be bound values
  With(FTags(c), LAMBDA F :
    [i \in 1..(Len(P) + Len(F)) |->
        IF i <= Len(P) THEN (IF onlyMean THEN 0
                             ELSE IF c.exact THEN CovNugInt(c, P[i], t) ELSE CovInt(c, P[i], t))
        ELSE FVal(F[i - Len(P)], t)])

Rejects(c) == c.exact /\ c.err.mode # "nugget"

-----------------------------------------------------------------------------
MatVec(cof, r) == [j \in 1..Len(r) |-> SumTo([i \in 1..Len(r) |-> cof[j][i] * r[i]], Len(r))]
Dot(x, y, n)   == SumTo([i \in 1..n |-> x[i] * y[i]], n)

Rejected(c) ==
  [status |-> "Rejected", det |-> 0, dd |-> DD(c), field |-> <<>>, rawvar |-> <<>>, var |-> <<>>,
   meanfield |-> <<>>, gmean |-> None, kmat |-> <<>>, rhs |-> <<>>,
   edc |-> IF c.ext = "none" THEN <<>> ELSE [i \in 1..Len(c.pos) |-> ExtVal(c.ext, c.pos[i])],
   edt |-> IF c.ext = "none" THEN <<>> ELSE [k \in 1..Len(c.tgt) |-> ExtVal(c.ext, c.tgt[k])],
   merged |-> FALSE]

(* every intermediate result is bound once (With); x(t) * det by Cramer's rule = cofactors * rhs *)
Solve5(c, s, K, cof, det) ==
  LET P == s.P  N == Len(s.P)  sz == Len(K)  T == Len(c.tgt)  den == s.M * det
      nk == c.norm[1]
      \* post-processing: (mean(t) + estimate) / k + s + trend(t)   as a rational over nk * den
      post(t, estnum) == Norm(<<Lin(c.mean, t) * den + estnum + nk * (c.norm[2] + Lin(c.trend, t)) * den, nk * den>>)
  IN
  With([k \in 1..T |-> Rhs(c, P, c.tgt[k], FALSE)], LAMBDA R :
  With([k \in 1..T |-> Rhs(c, P, c.tgt[k], TRUE)],  LAMBDA RM :
  With([k \in 1..T |-> MatVec(cof, R[k])],  LAMBDA X :
  With([k \in 1..T |-> MatVec(cof, RM[k])], LAMBDA XM :
  With([k \in 1..T |-> Norm(<<SillInt(c) * det - Dot(X[k], R[k], sz), DD(c) * det>>)], LAMBDA VR :
    [status |-> "ok", det |-> det, dd |-> DD(c),
     field     |-> [k \in 1..T |-> post(c.tgt[k], Dot(X[k], s.Z, N))],
     rawvar    |-> VR,
     var       |-> [k \in 1..T |-> IF VR[k][1] < 0 THEN <<0, 1>> ELSE VR[k]],
     meanfield |-> [k \in 1..T |-> post(c.tgt[k], Dot(XM[k], s.Z, N))],
     gmean     |-> IF c.drift # 0 \/ c.ext # "none" \/ c.mean[2] # 0 THEN None
                   ELSE IF c.unb
                        THEN Norm(<<c.mean[1] * den + SumTo([i \in 1..N |-> cof[i][N + 1] * s.Z[i]], N)
                                    + nk * c.norm[2] * den, nk * den>>)
                        ELSE <<c.mean[1] + nk * c.norm[2], nk>>,
     kmat      |-> With(ErrOf(c), LAMBDA e : With(c.pos, LAMBDA pp : KMat(c, pp, e))),
     rhs       |-> With(c.pos, LAMBDA pp : [k \in 1..T |-> With(c.tgt[k], LAMBDA t : Rhs(c, pp, t, FALSE))]),
     edc       |-> IF c.ext = "none" THEN <<>> ELSE [i \in 1..Len(c.pos) |-> ExtVal(c.ext, c.pos[i])],
     edt       |-> IF c.ext = "none" THEN <<>> ELSE [k \in 1..T |-> ExtVal(c.ext, c.tgt[k])],
     merged    |-> Merges(c)])))))

SolveV(c) ==             \* c must be a bound value
  IF Rejects(c) THEN Rejected(c)
  ELSE With(Sys(c), LAMBDA s :
       With(s.P, LAMBDA P : With(s.E, LAMBDA E :
       With(KMat(c, P, E), LAMBDA K :
       With(Cofactors(K), LAMBDA cof :
       With(SumTo([j \in 1..Len(K) |-> K[1][j] * cof[1][j]], Len(K)), LAMBDA det :
         Solve5(c, s, K, cof, det)))))))

Solve(c0) == With(c0, LAMBDA c : SolveV(c))

SysDet(c) ==             \* c must be a bound value
  With(Sys(c), LAMBDA s : With(s.P, LAMBDA P : With(s.E, LAMBDA E : Det(KMat(c, P, E)))))

(* admissible configurations: documented precondition err <= nugget; non-singular (reduced) system *)
Valid(c) ==
  /\ Len(c.val) = Len(c.pos)
  /\ \A i \in 1..Len(c.pos) : ErrOf(c)[i] <= c.nug /\ ErrOf(c)[i] >= 0
  /\ c.err.mode = "list" => (c.nug > 0 /\ Len(c.err.pat) = Len(c.pos))
  /\ c.err.mode = "scalar" => c.err.pat = <<>>
  /\ HasDup(c.pos) => (AllZero(ErrOf(c)) \/ \A i \in 1..Len(c.pos) : ErrOf(c)[i] > 0)
  /\ HasDup(c.pos) /\ c.exact => c.nug = 0   \* two different exact values at one location: left open
  /\ IF Rejects(c) THEN WithRejected
     ELSE /\ Len(RepIdx(c)) - Len(FTags(c)) <= MaxFree
          /\ Len(RepIdx(c)) >= Len(FTags(c))
          /\ SysDet(c) # 0

MkCfg(m, v, ps, z, L, vr, ng, ex, er) ==
  [model |-> m, dim |-> Dim, stretch |-> Stretch, quarter |-> 0, norm |-> <<1, 0>>,
   \* units that would enter the kriging matrix unevenly make it numerically singular for extreme factors
   \* (excluded by the property): functional drift rows carry the length unit, a covariance unit rescales
   \* the covariance block against the constraint rows.  There the unit stays 1.
   lunit |-> IF v.drift = 1 THEN 0 ELSE LUnit,
   vunit |-> IF v.unb \/ v.drift = 1 \/ v.ext # "none" THEN <<VUnit[1], 0>> ELSE VUnit,
   len |-> L, var |-> vr, nug |-> ng,
   cls |-> v.cls, unb |-> v.unb, drift |-> v.drift, ext |-> v.ext, mean |-> v.mean, trend |-> v.trend,
   exact |-> ex,
   err |-> [mode |-> er.mode, e |-> er.e,
            pat |-> IF er.mode = "list" THEN [i \in 1..Len(ps) |-> IF er.pat[i] < ng THEN er.pat[i] ELSE ng]
                    ELSE <<>>],
   pos |-> ps, val |-> z, tgt |-> Targets]

(* the enumerated base configurations *)
ForSomeBase(P(_)) ==
  \E m \in Models, v \in Variants, ps \in PosSets, L \in Lens, vr \in Vars, ng \in Nugs,
     ex \in Exacts, er \in ErrSpecs :
    \E z \in ValSeqs[Len(ps)] :
      \E c \in {MkCfg(m, v, ps, z, L, vr, ng, ex, er)} : P(c)

Init == ForSomeBase(LAMBDA c : Valid(c) = TRUE /\ cfg = c /\ out = SolveV(c))

Next == UNCHANGED vars

-----------------------------------------------------------------------------
(* Theorems checked on every enumerated configuration (cheap: read from out) *)
Ok == out.status = "ok"
TIdx == 1..Len(cfg.tgt)
DataAt(k) == {i \in 1..Len(cfg.pos) : cfg.pos[i] = cfg.tgt[k]}

TypeOK ==
  /\ out.status \in {"ok", "Rejected"}
  /\ Ok => /\ out.det # 0
           /\ \A k \in TIdx : out.field[k][2] > 0 /\ out.var[k][2] > 0

(* zero error at a data point (err_i = 0, or exact mode) => the value is reproduced *)
ExactAtData ==
  Ok /\ ~HasDup(cfg.pos) =>
    \A k \in TIdx : \A i \in DataAt(k) :
      (cfg.exact \/ ErrOf(cfg)[i] = 0) => out.field[k][1] = cfg.val[i] * out.field[k][2]

(* no nugget, or exact mode => zero kriging variance at the data *)
ZeroVarianceAtData ==
  Ok /\ ~HasDup(cfg.pos) =>
    \A k \in TIdx : \A i \in DataAt(k) :
      (cfg.exact \/ (cfg.nug = 0 /\ ErrOf(cfg)[i] = 0)) => out.var[k][1] = 0

(* the un-clipped theoretical variance is already non-negative on this (positive definite) family *)
VarianceNonNegative == Ok => \A k \in TIdx : out.rawvar[k][1] >= 0 /\ out.var[k][1] >= 0

(* simple kriging: variance <= sill   (num/den <= sillInt/dd, den = dd*det) *)
VarianceLeSillSimple ==
  Ok /\ Len(FTags(cfg)) = 0 =>
    \A k \in TIdx : out.var[k][1] <= SillInt(cfg) * (out.var[k][2] \div out.dd)

-----------------------------------------------------------------------------
(* Heavier theorems (re-solve modified configurations); used in the theorem jobs *)
Perms(n) == {p \in [1..n -> 1..n] : \A i, j \in 1..n : i # j => p[i] # p[j]}
Permuted(s, p) == [i \in 1..Len(s) |-> s[p[i]]]

(* order of the conditioning points is irrelevant *)
PermutationInvariantCond ==
  Ok => \A p \in Perms(Len(cfg.pos)) :
     With(Solve([cfg EXCEPT !.pos = Permuted(cfg.pos, p), !.val = Permuted(cfg.val, p),
                            !.err.pat = IF cfg.err.mode = "list" THEN Permuted(cfg.err.pat, p) ELSE <<>>]),
          LAMBDA o2 : o2.field = out.field /\ o2.var = out.var /\ o2.gmean = out.gmean
                      /\ o2.meanfield = out.meanfield)

(* order of the targets is irrelevant; so is any chunking of the targets *)
PermutationInvariantTgt ==
  Ok => \A p \in Perms(Len(cfg.tgt)) :
     With(Solve([cfg EXCEPT !.tgt = Permuted(cfg.tgt, p)]),
          LAMBDA o2 : o2.field = Permuted(out.field, p) /\ o2.var = Permuted(out.var, p))

RECURSIVE CatField(_, _), CatVar(_, _)
CatField(parts, i) == IF i = 0 THEN <<>> ELSE CatField(parts, i - 1) \o parts[i].field
CatVar(parts, i)   == IF i = 0 THEN <<>> ELSE CatVar(parts, i - 1) \o parts[i].var
ChunkIndependent ==
  Ok => \A cs \in 1..(Len(cfg.tgt) + 1) :
     With(Chunks(Len(cfg.tgt), cs), LAMBDA ch :
     With([i \in 1..Len(ch) |-> Solve([cfg EXCEPT !.tgt = SubSeq(cfg.tgt, ch[i][1] + 1, ch[i][2])])],
          LAMBDA parts : CatField(parts, Len(ch)) = out.field /\ CatVar(parts, Len(ch)) = out.var))

(* the estimate is linear in the (detrended, mean-free) data; the variance does not depend on them *)
ZeroShift(c) == [c EXCEPT !.mean = <<0, 0>>, !.trend = <<0, 0>>, !.norm = <<1, 0>>]
LinearInData ==
  Ok => \A a \in {-1, 2} : \A z2 \in ValSeqs[Len(cfg.pos)] :
     With(Solve(ZeroShift(cfg)), LAMBDA o1 :
     With(Solve([ZeroShift(cfg) EXCEPT !.val = z2]), LAMBDA o2 :
     With(Solve([ZeroShift(cfg) EXCEPT !.val = [i \in 1..Len(z2) |-> a * cfg.val[i] + z2[i]]]), LAMBDA o3 :
        /\ \A k \in TIdx : /\ o3.field[k][2] = o1.field[k][2] /\ o2.field[k][2] = o1.field[k][2]
                           /\ o3.field[k][1] = a * o1.field[k][1] + o2.field[k][1]
        /\ o3.var = out.var /\ o2.var = out.var)))

(* unbiased variants reproduce constants; with drift rows they reproduce the drift functions *)
ReproducesConstants ==
  Ok /\ cfg.unb => \A a \in {-2, 1, 3} :
     With(Solve([ZeroShift(cfg) EXCEPT !.val = [i \in 1..Len(cfg.pos) |-> a]]), LAMBDA o2 :
        \A k \in TIdx : o2.field[k][1] = a * o2.field[k][2] /\ o2.meanfield[k][1] = a * o2.meanfield[k][2])

ReproducesDrift ==
  Ok /\ Len(FTags(cfg)) > 0 =>
    \A l \in 1..Len(FTags(cfg)) : \A b \in {-1, 2} :
     With(FTags(cfg)[l], LAMBDA tag :
     With(Solve([ZeroShift(cfg) EXCEPT !.val = [i \in 1..Len(cfg.pos) |-> b * FVal(tag, cfg.pos[i])]]), LAMBDA o2 :
        \A k \in TIdx : /\ o2.field[k][1] = b * FVal(tag, cfg.tgt[k]) * o2.field[k][2]
                         /\ o2.meanfield[k][1] = b * FVal(tag, cfg.tgt[k]) * o2.meanfield[k][2]))

(* an unbiased estimate does not depend on the given constant mean; without normalizer a trend
   acts like a mean (documented) *)
MeanIrrelevantWhenUnbiased ==
  Ok /\ cfg.unb => Solve([cfg EXCEPT !.mean = <<0, 0>>]).field = out.field
TrendActsAsMean ==
  Ok /\ cfg.norm = <<1, 0>> => With(Solve([cfg EXCEPT !.mean = <<cfg.mean[1] + cfg.trend[1], cfg.mean[2] + cfg.trend[2]>>,
                               !.trend = <<0, 0>>]),
             LAMBDA o2 : o2.field = out.field /\ o2.var = out.var)

(* units: a common factor on positions, targets and length scale changes nothing; a factor A on the
   data multiplies the estimate by A; a factor C on variance, nugget and measurement errors multiplies
   the kriging variance by C and leaves the estimate alone.  (Small integer factors; the position
   dependent external drift functions are excluded from the length theorem.) *)
RECURSIVE Gcd(_, _)
Gcd(a, b) == IF b = 0 THEN a ELSE Gcd(b, a % b)
Abs(a) == IF a < 0 THEN 0 - a ELSE a
Reduce(q) == With(Gcd(Abs(q[1]), Abs(q[2])), LAMBDA g : IF g = 0 THEN q ELSE <<q[1] \div g, q[2] \div g>>)   \* den > 0
RatEq(p, q) == Reduce(p) = Reduce(q)        \* equality of rationals in lowest terms (no cross products: 32 bit)
ScalePts(ps, U) == [i \in 1..Len(ps) |-> [d \in 1..Len(ps[i]) |-> U * ps[i][d]]]
SmallDD == DD(cfg) <= 16
LengthUnitInvariant ==
  Ok /\ SmallDD /\ cfg.model = "Linear" /\ cfg.ext = "none" => \A U \in {2} :
     With(Solve(ZeroShift(cfg)), LAMBDA o1 :
     With(Solve([ZeroShift(cfg) EXCEPT !.pos = ScalePts(cfg.pos, U), !.tgt = ScalePts(cfg.tgt, U), !.len = U * cfg.len]),
          LAMBDA o2 : \A k \in TIdx : /\ RatEq(o2.field[k], o1.field[k]) /\ RatEq(o2.var[k], o1.var[k])
                                      /\ RatEq(o2.meanfield[k], o1.meanfield[k])))
ValueUnitScaling ==
  Ok /\ SmallDD => \A A \in {2} : \A C \in {1, 2} :
     With(Solve(ZeroShift(cfg)), LAMBDA o1 :
     With(Solve([ZeroShift(cfg) EXCEPT !.val = [i \in 1..Len(cfg.val) |-> A * cfg.val[i]],
                                       !.var = C * cfg.var, !.nug = C * cfg.nug, !.err.e = C * cfg.err.e,
                                       !.err.pat = [i \in 1..Len(cfg.err.pat) |-> C * cfg.err.pat[i]]]),
          LAMBDA o2 : \A k \in TIdx : /\ RatEq(o2.field[k], <<A * o1.field[k][1], o1.field[k][2]>>)
                                      /\ RatEq(o2.var[k], <<C * o1.var[k][1], o1.var[k][2]>>)))

(* the merged solution, expanded with equal weights inside each group of coincident points,
   solves the full singular system; among its solutions (they differ by vectors e_i - e_j of
   coincident points) the equal-weight one has minimal norm, i.e. it is the pseudo-inverse
   solution.  Checked for the weights of every target. *)
DuplicatesMerge ==
  Ok /\ Merges(cfg) =>
    With(Sys(cfg), LAMBDA s : With(s.P, LAMBDA P : With(s.E, LAMBDA E :
    With(KMat(cfg, P, E), LAMBDA K : With(Cofactors(K), LAMBDA cof :
    With(KMat(cfg, cfg.pos, ErrOf(cfg)), LAMBDA KF :
      LET N  == Len(P)
          n  == Len(cfg.pos)
          m  == Len(FTags(cfg))
          g(i) == CHOOSE h \in 1..N : P[h] = cfg.pos[i]
      IN \A k \in TIdx :
           With(MatVec(cof, Rhs(cfg, P, cfg.tgt[k], FALSE)), LAMBDA x :
           With(Rhs(cfg, cfg.pos, cfg.tgt[k], FALSE), LAMBDA rf :
           With([j \in 1..(n + m) |-> IF j <= n THEN (MM \div s.cnt[g(j)]) * x[g(j)] ELSE MM * x[N + (j - n)]],
                LAMBDA xf :
                  \A i \in 1..(n + m) : Dot(KF[i], xf, n + m) = MM * out.det * rf[i])))))))))

=============================================================================
