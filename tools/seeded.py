#!/usr/bin/env python3
"""Run the checks against the seeded changes in /verif/seeded/<id>/ (patch.diff, meta.json).

Default mode: a scratch copy of /repo/src gets the patch (`patch -p1`), the check runs with
PYTHONPATH pointing at the copy (the editable install is shadowed), the copy is removed.
/repo itself is never touched, so several entries can run in parallel (-j N).
--in-repo: `git -C /repo apply patch.diff`, run, `git -C /repo checkout -- .` (sequential).
usage: tools/seeded.py [-j N] [--in-repo] [--prop Cxx] [ids...]      (default: all)
"""
import json
import os
import shutil
import subprocess
import sys
import tempfile
import time
from concurrent.futures import ThreadPoolExecutor

ROOT = os.path.dirname(os.path.dirname(os.path.abspath(__file__)))


def run_one(d, pid, in_repo):
    p = os.path.join(ROOT, "seeded", d)
    env = dict(os.environ)
    tmp = None
    t0 = time.time()
    try:
        if in_repo:
            subprocess.check_call(["git", "-C", "/repo", "apply", os.path.join(p, "patch.diff")])
        else:
            tmp = tempfile.mkdtemp(prefix="seed_%s_" % d)
            shutil.copytree("/repo/src", os.path.join(tmp, "src"))
            rc = subprocess.run(["patch", "-s", "-p1", "--dry-run", "-i", os.path.join(p, "patch.diff")], cwd=tmp,
                                capture_output=True).returncode
            meta_ = json.load(open(os.path.join(p, "meta.json")))
            base = meta_.get("base")
            if (rc != 0 or meta_.get("force_base")) and base:
                # the change was written against an older commit of /repo and conflicts with a later repair:
                # run it on that commit's sources (compiled artefacts are taken from the working tree)
                shutil.rmtree(os.path.join(tmp, "src"))
                ar = subprocess.run(["git", "-C", "/repo", "archive", base, "src"], capture_output=True, check=True).stdout
                subprocess.run(["tar", "-x", "-C", tmp], input=ar, check=True)
                for root, _d, files in os.walk("/repo/src"):
                    for f in files:
                        if f.endswith((".so", ".c", ".cpp")) or f == "_version.py":
                            dst = os.path.join(tmp, os.path.relpath(os.path.join(root, f), "/repo"))
                            if not os.path.exists(dst):
                                shutil.copy(os.path.join(root, f), dst)
            elif rc != 0:
                print("%-22s %s patch does not apply to the current tree" % (d, pid), flush=True)
                return (d, pid, -1)
            subprocess.check_call(["patch", "-s", "-p1", "-i", os.path.join(p, "patch.diff")], cwd=tmp)
            env["PYTHONPATH"] = os.path.join(tmp, "src")
        r = subprocess.run([os.path.join(ROOT, "check"), pid, "--tier", "quick"], capture_output=True, text=True, cwd=ROOT, env=env)
    finally:
        if in_repo:
            subprocess.check_call(["git", "-C", "/repo", "checkout", "--", "."])
        if tmp:
            shutil.rmtree(tmp, ignore_errors=True)
    viol = [l for l in r.stdout.splitlines() if l.startswith("VIOLATION")]
    keys = [l.strip() for l in r.stdout.splitlines() if l.strip().startswith("key=")][:2]
    last = r.stdout.strip().splitlines()[-1][:150] if r.stdout.strip() else ""
    print("%-22s %s exit=%d violations=%d %.0fs %s" % (d, pid, r.returncode, len(viol), time.time() - t0, keys[0][:170] if keys else last), flush=True)
    return (d, pid, r.returncode)


def main():
    args = sys.argv[1:]
    jobs_n, in_repo, prop = 1, False, None
    while args and args[0].startswith("-"):
        a = args.pop(0)
        if a == "-j":
            jobs_n = int(args.pop(0))
        elif a == "--in-repo":
            in_repo = True
        elif a == "--prop":
            prop = args.pop(0)
    sel = args
    work = []
    for d in sorted(os.listdir(os.path.join(ROOT, "seeded"))):
        p = os.path.join(ROOT, "seeded", d)
        if not os.path.isfile(os.path.join(p, "patch.diff")) or (sel and d not in sel):
            continue
        meta = json.load(open(os.path.join(p, "meta.json")))
        props = [prop] if prop else (meta["property"] if isinstance(meta["property"], list) else [meta["property"]])
        work += [(d, pid) for pid in props]
    if in_repo:
        if subprocess.run(["git", "-C", "/repo", "status", "--porcelain"], capture_output=True, text=True).stdout.strip():
            print("refusing: /repo has uncommitted changes")
            return 2
        jobs_n = 1
    with ThreadPoolExecutor(max_workers=jobs_n) as ex:
        rows = list(ex.map(lambda w: run_one(w[0], w[1], in_repo), work))
    missed = [r for r in rows if r[2] != 1]
    print("%d runs, %d detected, %d missed: %s" % (len(rows), len(rows) - len(missed), len(missed), [(r[0], r[1]) for r in missed]))
    return 0


if __name__ == "__main__":
    sys.exit(main())
