#!/usr/bin/env python3
"""Run the checks against the seeded changes in /verif/seeded/<id>/ (patch.diff, meta.json).

For each selected entry: `git -C /repo apply patch.diff`, run `./check <property> --tier quick`,
expect exit 1 with a VIOLATION line, then `git -C /repo checkout -- .`.  Never leaves /repo dirty.
usage: tools/seeded.py [ids...]      (default: all)
"""
import json
import os
import subprocess
import sys
import time

ROOT = os.path.dirname(os.path.dirname(os.path.abspath(__file__)))


def main():
    sel = sys.argv[1:]
    rows = []
    for d in sorted(os.listdir(os.path.join(ROOT, "seeded"))):
        p = os.path.join(ROOT, "seeded", d)
        if not os.path.isfile(os.path.join(p, "patch.diff")) or (sel and d not in sel):
            continue
        meta = json.load(open(os.path.join(p, "meta.json")))
        if subprocess.run(["git", "-C", "/repo", "status", "--porcelain"], capture_output=True, text=True).stdout.strip():
            print("refusing: /repo has uncommitted changes")
            return 2
        props = meta["property"] if isinstance(meta["property"], list) else [meta["property"]]
        try:
            subprocess.check_call(["git", "-C", "/repo", "apply", os.path.join(p, "patch.diff")])
            for pid in props:
                t0 = time.time()
                r = subprocess.run([os.path.join(ROOT, "check"), pid, "--tier", "quick"], capture_output=True, text=True, cwd=ROOT)
                viol = [l for l in r.stdout.splitlines() if l.startswith("VIOLATION")]
                keys = [l.strip() for l in r.stdout.splitlines() if l.strip().startswith("key=")][:2]
                rows.append((d, pid, r.returncode, len(viol), time.time() - t0, keys))
                print("%-28s %s exit=%d violations=%d %.0fs %s" % (d, pid, r.returncode, len(viol), time.time() - t0,
                                                                 (keys[0][:150] if keys else r.stdout.strip().splitlines()[-1][:150] if r.stdout.strip() else "")), flush=True)
        finally:
            subprocess.check_call(["git", "-C", "/repo", "checkout", "--", "."])
    missed = [r for r in rows if r[2] != 1]
    print("%d runs, %d detected, %d missed: %s" % (len(rows), len(rows) - len(missed), len(missed), [(r[0], r[1]) for r in missed]))
    return 0


if __name__ == "__main__":
    sys.exit(main())
