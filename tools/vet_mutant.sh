#!/bin/sh
# tools/vet_mutant.sh <worktree> <mutant dir (patch.diff, demo.py, meta.json)> <seeded id>
# Confirms in the scratch worktree: patch applies, full test suite passes with it, demo exits 1 with / 0 without.
# On success copies the mutant to /verif/seeded/<seeded id>/.
WT=$1; M=$2; ID=$3
cd "$WT" || exit 2
git checkout -q -- . || exit 2
git apply --check "$M/patch.diff" || { echo "$ID: patch does not apply"; exit 1; }
git apply "$M/patch.diff"
PYTHONPATH=$WT/src timeout 1500 /venv/bin/python -m pytest -q -x -p no:cacheprovider --timeout=900 -n 6 tests > /tmp/vet_$ID.log 2>&1
T=$?
PYTHONPATH=$WT/src timeout 600 /venv/bin/python "$M/demo.py" > /tmp/vet_${ID}_demo1.log 2>&1; D1=$?
git checkout -q -- .
PYTHONPATH=$WT/src timeout 600 /venv/bin/python "$M/demo.py" > /tmp/vet_${ID}_demo0.log 2>&1; D0=$?
echo "$ID: tests_exit=$T ($(tail -1 /tmp/vet_$ID.log)) demo_with_patch=$D1 demo_without=$D0"
if [ $T -eq 0 ] && [ $D1 -eq 1 ] && [ $D0 -eq 0 ]; then
  mkdir -p /verif/seeded/$ID && cp "$M/patch.diff" "$M/demo.py" "$M/meta.json" /verif/seeded/$ID/ && echo "$ID: kept"
else
  echo "$ID: REJECTED"
fi
