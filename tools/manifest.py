#!/usr/bin/env python3
"""Regenerates /verif/MANIFEST.json from the table below (single source of truth)."""
import json
import os

ROOT = os.path.dirname(os.path.dirname(os.path.abspath(__file__)))

NA = {
    "C01": "statistical statement (expectation over seeds, Monte-Carlo error rate): no discrete state for TLA+/TLC to decide; see DESIGN.md §5",
    "C02": "sign of a d-dimensional Fourier transform / spectrum of arbitrary covariance matrices: real analysis, not state; see DESIGN.md §5",
    "C04": "equality of functions with integral transforms (numerical Fourier pair, cdf/ppf): numeric analysis, nothing discrete to model; see DESIGN.md §5",
}
PENDING = "check under construction (planned in DESIGN.md §5); not yet claimed"

CHECKS = {
    "C14": dict(
        technique="TLA+ state machine (Params.tla) model-checked exhaustively with TLC; TLC-generated behaviours (state-graph edge cover + simulation) replayed on real CovModel objects",
        text="TLC explores the complete reachable state space of the ideal parameter machine for each spec class x (lat-lon, temporal) configuration and checks the consistency invariants; "
             "every transition reachable within two operations plus random long histories are replayed on real models of all 17 shipped classes, comparing every public attribute with the spec state and with a directly constructed model. "
             "Right level: the property quantifies over setter histories, which a finite-domain state machine closes.",
        design_ref="DESIGN.md §4.1, §5 C14",
        note="trusted: TLC; the abstraction function in harness/drivers/params.py (dyadic value lattice, 1/64 units); rejection treated as terminal; TPL classes driven with hurst=0.5",
    ),
}

CHECKS["C11"] = dict(
    technique="TLA+ state machine (Generator.tla: ideal settings + code-shaped hidden state in two seed-identity copies) model-checked with TLC; TLC behaviours replayed twice on real SRF objects",
    text="TLC explores every history of calls, in-place model changes, model re-assignment and generator setters over finite domains and checks that each derived datum used by a call "
         "was computed from the settings in force (Coherent) and that seed object identity is unobservable (self-composition). Behaviours from the state graph and from simulation are replayed on "
         "RandMeth / IncomprRandMeth / Fourier: every call must agree with a freshly built SRF of the same settings, with permuted / subset / batched / structured / meshio evaluations, and bitwise between "
         "runs with shared and fresh seed objects (incl. nugget noise). The quantifier is over histories: model checking closes it on the abstraction, replay binds it to the code.",
    design_ref="DESIGN.md §4.4, §5 C11",
    note="trusted: TLC; reference values are produced by freshly constructed gstools objects (the property's own oracle, exposes history dependence only); value lattice of 2 values per parameter; `sampling` not modelled",
)
CHECKS["C17"] = dict(
    technique="TLA+ invariant Periodic/Coherent on Generator.tla (Fourier part) checked with TLC over all update histories; replay on SRF(generator='Fourier') with off-grid periodicity probes",
    text="The phase change of every mode under a shift by the period along a main axis is a multiple of 2 pi iff the mode mesh was built from the period and anisotropy in force; TLC checks this provenance invariant "
         "over all histories of period / mode_no / model updates; replayed behaviours evaluate f(x) and f(x + period_d * main_axis_d) at off-grid points after every call and compare with fresh generators.",
    design_ref="DESIGN.md §4.4, §5 C17",
    note="trusted: TLC; CovModel.main_axes() for the direction of the rotated axes (checked separately under C12); tolerance 1e-9*sqrt(var)",
)

CHECKS["C07"] = dict(
    technique="TLA+ state machine (CondCache.tla: configuration/dirty flag + provenance tags of the cached kriging results) model-checked with TLC; behaviours replayed on real CondSRF objects against freshly built ones",
    text="TLC explores all histories of calls, set_pos, set_condition (new data / refresh), in-place and re-assigned model changes, mean/trend re-assignment and delete_fields, checking that a call made in a refreshed state "
         "never uses a kriging result of another configuration or other positions. Behaviours are replayed on CondSRF(Simple/Ordinary): field, raw_krige and krige_var must equal a freshly built object's, the field must equal "
         "mean + krige + sqrt(krige_var/var) * unconditional field of the same seed assembled from independent objects, honour the data and approach mean + unconditional field far away (simple kriging).",
    design_ref="DESIGN.md §4.5, §5 C07",
    note="trusted: TLC; conservative reading (calls in a dirty state are not compared); independent Krige/SRF objects of the same library for the formula oracle (pinned by C05/C11)",
)

CHECKS["C20"] = dict(
    technique="TLA+ alias-heap model of the Field storage discipline (Alias.tla) and entry-point matrix (AliasMatrix.tla) enumerated/model-checked with TLC; every enumerated cell / behaviour executed on the real code with sentinel arrays compared byte-wise",
    text="TLC checks EarlierResultsStable / NoForeignWrite over all histories of generate / field-call / transform(store same|new|none, process) operations on the alias heap and enumerates the complete matrix "
         "entry point x argument role x array layout (aliasing or converting) x option subset. Each cell is run against gstools with sentinel arrays (data, mask, memory between strided elements) compared byte-wise before/after; "
         "each heap behaviour is replayed on SRF objects with and without mean/trend/normalizer comparing every array the caller holds after every step. The quantifier is a finite combinatorial matrix plus store/transform histories: enumerated completely.",
    design_ref="DESIGN.md §4.5 (alias heap), §5 C20",
    note="trusted: TLC; the entry table in harness/drivers/alias.py (entry points outside it - plotting, export - are not covered); byte-wise comparison as oracle",
)

ALL = ["C%02d" % i for i in range(1, 21)]


def main():
    checks = []
    for pid in ALL:
        if pid not in CHECKS:
            continue
        c = CHECKS[pid]
        checks.append({
            "property_id": pid,
            "quick_cmd": "./check %s --tier quick" % pid,
            "thorough_cmd": "./check %s --tier thorough" % pid,
            "evidence_file": "/verif/evidence/%s.json" % pid,
            "replay_cmd_template": "./check %s --replay {path}" % pid,
            "engine": "tlc+replay",
            "level_claimed": {"category": c.get("category", "model_checking"), "text": c["text"], "design_ref": c["design_ref"]},
            "level_note": c["note"],
            "technique": c["technique"],
        })
    na = [{"property_id": p, "reason": NA.get(p, PENDING)} for p in ALL if p not in CHECKS]
    m = {
        "version": 1,
        "setup_cmd": "true",
        "hooks": {
            "guard": "GSTOOLS_VERIF",
            "enable": "no source hooks in /repo: checks install recording wrappers from /verif/harness at run time (./check exports GSTOOLS_VERIF=1)",
            "baseline_off_cmd": "cd /repo && /venv/bin/python -m pytest -ra -q -p no:cacheprovider --timeout=900 --continue-on-collection-errors",
            "source_commits": [],
            "add_only": True,
        },
        "engines": [{"name": "tlc+replay", "path": "/verif/check", "serves_properties": sorted(CHECKS),
                     "kind_free_text": "TLA+ specifications in /verif/spec checked with TLC; behaviours generated by TLC replayed into gstools, recorded traces validated against the specs"}],
        "checks": checks,
        "not_applicable": na,
        "notes": "fix: commits in /repo repair genuine defects found by the checks; see /verif/known_findings.json and DESIGN.md §6",
    }
    with open(os.path.join(ROOT, "MANIFEST.json"), "w") as fh:
        json.dump(m, fh, indent=1)
    print("MANIFEST.json: %d checks, %d not applicable" % (len(checks), len(na)))


if __name__ == "__main__":
    main()
