#!/usr/bin/env python3
"""Regenerates /verif/MANIFEST.json from the table below (single source of truth)."""
import json
import os

ROOT = os.path.dirname(os.path.dirname(os.path.abspath(__file__)))

NA = {
    "C01": "statistical statement (expectation over seeds, Monte-Carlo error rate): no discrete state for TLA+/TLC to decide; see DESIGN.md §5",
    "C02": "sign of a d-dimensional Fourier transform / spectrum of arbitrary covariance matrices: real analysis, not state; see DESIGN.md §5",
    "C04": "equality of functions with integral transforms (numerical Fourier pair, cdf/ppf): numeric analysis, nothing discrete to model; see DESIGN.md §5",
}
PENDING = "check under construction (planned in DESIGN.md §5); not yet claimed"

CHECKS = {
    "C14": dict(
        technique="TLA+ state machine (Params.tla) model-checked exhaustively with TLC; TLC-generated behaviours (state-graph edge cover + simulation) replayed on real CovModel objects",
        text="TLC explores the complete reachable state space of the ideal parameter machine for each spec class x (lat-lon, temporal) configuration and checks the consistency invariants; "
             "every transition reachable within two operations plus random long histories are replayed on real models of all 17 shipped classes, comparing every public attribute with the spec state and with a directly constructed model. "
             "Right level: the property quantifies over setter histories, which a finite-domain state machine closes.",
        design_ref="DESIGN.md §4.1, §5 C14",
        note="trusted: TLC; the abstraction function in harness/drivers/params.py (dyadic value lattice, 1/64 units); rejection treated as terminal; TPL classes driven with hurst=0.5",
    ),
}

CHECKS["C11"] = dict(
    technique="TLA+ state machine (Generator.tla: ideal settings + code-shaped hidden state in two seed-identity copies) model-checked with TLC; TLC behaviours replayed twice on real SRF objects",
    text="TLC explores every history of calls, in-place model changes, model re-assignment and generator setters over finite domains and checks that each derived datum used by a call "
         "was computed from the settings in force (Coherent) and that seed object identity is unobservable (self-composition). Behaviours from the state graph and from simulation are replayed on "
         "RandMeth / IncomprRandMeth / Fourier: every call must agree with a freshly built SRF of the same settings, with permuted / subset / batched / structured / meshio evaluations, and bitwise between "
         "runs with shared and fresh seed objects (incl. nugget noise). The quantifier is over histories: model checking closes it on the abstraction, replay binds it to the code.",
    design_ref="DESIGN.md §4.4, §5 C11",
    note="trusted: TLC; reference values are produced by freshly constructed gstools objects (the property's own oracle, exposes history dependence only); value lattice of 2 values per parameter; `sampling` not modelled",
)
CHECKS["C17"] = dict(
    technique="TLA+ invariant Periodic/Coherent on Generator.tla (Fourier part) checked with TLC over all update histories; replay on SRF(generator='Fourier') with off-grid periodicity probes",
    text="The phase change of every mode under a shift by the period along a main axis is a multiple of 2 pi iff the mode mesh was built from the period and anisotropy in force; TLC checks this provenance invariant "
         "over all histories of period / mode_no / model updates; replayed behaviours evaluate f(x) and f(x + period_d * main_axis_d) at off-grid points after every call and compare with fresh generators.",
    design_ref="DESIGN.md §4.4, §5 C17",
    note="trusted: TLC; CovModel.main_axes() for the direction of the rotated axes (checked separately under C12); tolerance 1e-9*sqrt(var)",
)

CHECKS["C07"] = dict(
    technique="TLA+ state machine (CondCache.tla: configuration/dirty flag + provenance tags of the cached kriging results) model-checked with TLC; behaviours replayed on real CondSRF objects against freshly built ones",
    text="TLC explores all histories of calls, set_pos, set_condition (new data / refresh), in-place and re-assigned model changes, mean/trend re-assignment and delete_fields, checking that a call made in a refreshed state "
         "never uses a kriging result of another configuration or other positions. Behaviours are replayed on CondSRF(Simple/Ordinary): field, raw_krige and krige_var must equal a freshly built object's, the field must equal "
         "mean + krige + sqrt(krige_var/var) * unconditional field of the same seed assembled from independent objects, honour the data and approach mean + unconditional field far away (simple kriging).",
    design_ref="DESIGN.md §4.5, §5 C07",
    note="trusted: TLC; conservative reading (calls in a dirty state are not compared); independent Krige/SRF objects of the same library for the formula oracle (pinned by C05/C11)",
)

CHECKS["C20"] = dict(
    technique="TLA+ alias-heap model of the Field storage discipline (Alias.tla) and entry-point matrix (AliasMatrix.tla) enumerated/model-checked with TLC; every enumerated cell / behaviour executed on the real code with sentinel arrays compared byte-wise",
    text="TLC checks EarlierResultsStable / NoForeignWrite over all histories of generate / field-call / transform(store same|new|none, process) operations on the alias heap and enumerates the complete matrix "
         "entry point x argument role x array layout (aliasing or converting) x option subset. Each cell is run against gstools with sentinel arrays (data, mask, memory between strided elements) compared byte-wise before/after; "
         "each heap behaviour is replayed on SRF objects with and without mean/trend/normalizer comparing every array the caller holds after every step. The quantifier is a finite combinatorial matrix plus store/transform histories: enumerated completely.",
    design_ref="DESIGN.md §4.5 (alias heap), §5 C20",
    note="trusted: TLC; the entry table in harness/drivers/alias.py (entry points outside it - plotting, export - are not covered); byte-wise comparison as oracle",
)

CHECKS["C03"] = dict(
    technique="TLA+ spec Derive.tla (derivation graph of the four defining functions, variant rules, exact rational closed forms, integral-scale setter) checked with TLC; TLC-computed values replayed on generated user subclasses and all shipped model classes",
    text="TLC enumerates all 16 subsets of defining functions (termination / grounding of the installed derivation), the variant rules on exact lattices and the documented closed forms of the polynomial / rational models as exact rationals on a lag x parameter lattice; "
         "generated user subclasses, the 17 shipped classes and the integral-scale setter are executed and compared with TLC's values (1e-12). Scope-limited: transcendental closed forms, quadrature and root-finding accuracy are not covered.",
    design_ref="DESIGN.md §4.3, §5 C03",
    note="trusted: TLC; lattice restriction (lags k/8 len_scale, dyadic parameters, Pythagorean / quarter-turn angles); relations for transcendental models compare two implementation outputs",
)
CHECKS["C08"] = dict(
    technique="TLA+ definition of the variogram estimators in exact integer arithmetic (Vario.tla), inputs enumerated and expected results computed by TLC; every input replayed into the compiled kernels and vario_estimate / vario_estimate_axis",
    text="TLC enumerates point sets (duplicates, collinear), fields with NaNs, bin edges (pairs exactly on edges), estimators, directions / tolerance classes / bandwidths, separated directions, exact great-circle families and masked grids, "
         "and computes counts, Matheron values as rationals and Cressie bags; each input is executed by the compiled kernels and the public functions: counts exact (or within the spec's boundary alternatives), values to 1e-12.",
    design_ref="DESIGN.md §4.7, §5 C08",
    note="trusted: TLC; Cressie normalisation applied in Python to TLC's bag of differences; haversine accuracy at generic coordinates not covered; two open known findings (antipodal NaN distance, coincident pair with separated directions)",
)
CHECKS["C09"] = dict(
    technique="invariance and preprocessing theorems of Vario.tla checked by TLC as invariants over enumerated inputs; both sides of each relation replayed through the real vario_estimate",
    text="Permutation, lattice translation, signed axis permutations / quarter turns with directions, constant shift, integer scaling, masked = no_data = NaN = removed, per-field skipping, structured mesh = point list, geo_scale unit conversion and seeded sub-sampling (identified subset) "
         "are theorems of the spec estimator checked by TLC and relations replayed on the implementation (about 45 relation kinds).",
    design_ref="DESIGN.md §4.7, §5 C09",
    note="trusted: TLC; non-lattice rotations / translations are rounding-level statements and not covered; C08's two open findings are visible through this binding and listed for C09 as well",
)
CHECKS["C12"] = dict(
    technique="TLA+ exact matrix algebra of rotations / anisotropy on the quarter-turn group (Geometry.tla) checked exhaustively with TLC; TLC matrices and transformed positions replayed against tools.geometric, CovModel and the SRF / Krige / CondSRF pipelines",
    text="All quarter-turn angle vectors (4 / 64 / 4096 in dim 2 / 3 / 4) x dyadic ratio vectors: Iso o Aniso = Id, proper orthogonality, embedding, documented sense of each elementary rotation, main-axis length scales; the implementation's matrices, "
         "CovModel methods and complete field / kriging / conditioned-simulation pipelines must equal the isotropic computation at the spec's transformed positions; general angles are covered as relations between implementation outputs.",
    design_ref="DESIGN.md §4.2, §5 C12",
    note="trusted: TLC; composition order of the elementary rotations is the one clause taken from the code (named constant Order); cos/sin accuracy not covered",
)
CHECKS["C13"] = dict(
    technique="TLA+ exact sphere / space-time geometry on the octahedral and great-circle integer-degree lattices (GeometrySphere.tla, Geometry.tla) checked with TLC; replayed against latlon2pos / pos2latlon, lat-lon (+time) models, the variogram estimator, Yadrenko covariances and kriging",
    text="Lat-lon <-> 3-D conversion and round trip, radius scaling, time axis appended and divided by the last ratio only, exact integer-degree great-circle distances (date line, poles, lon +- 360k), the 24 octahedral rotations; "
         "the implementation's conversions, estimator distances, cov_yadrenko relation, kriging covariances and rotation invariance of kriging are compared with the spec values.",
    design_ref="DESIGN.md §4.2, §5 C13",
    note="trusted: TLC; haversine / atan2 accuracy at generic points not covered; rotation invariance is demanded of kriging only (a RandMeth realisation is not rotation invariant)",
)
CHECKS["C15"] = dict(
    technique="TLA+ defining sums (Kernels.tla) computed by TLC on exact lattices + TLA+ OpenMP schedule models generated from the current .pyx (OmpTemplate.tla) model-checked for races / accumulation order; compiled .so vs interpreted .pyx vs OpenMP build of the generated C under all thread counts",
    text="Three implementations (shipped .so, plain interpretation of the current .pyx, OpenMP build of the generated C with 1..16 threads) are compared on every TLC-enumerated input against TLC's exact result and on random float inputs against each other (thread counts bit-identical); "
         "the loop nests of every prange region are extracted at check time into a TLA+ model whose RaceFree / OrderDeterministic / SerialEquivalent invariants TLC checks for all schedules of <= 3 threads.",
    design_ref="DESIGN.md §4.9, §5 C15",
    category="model_checking",
    note="trusted: TLC; OpenMP semantics encoded in OmpTemplate.tla (cross-checked against the pragmas); Cython is not installed, so a .pyx change is judged through its interpretation, not a recompilation",
)
CHECKS["C16"] = dict(
    technique="TLA+ projector identity |k|^2 (k . p(k)) = 0 on the projector extracted from the current .pyx, checked by TLC on a polynomial-determining grid; single-mode probing of the compiled kernel and analytic divergence of SRF(generator='VectorField') fields",
    text="Divergence-freeness is decided as a polynomial identity (TLC, grid (-2..2)^d determines the degree-2 polynomial), bound to the code by probing the compiled kernel with single modes and by assembling the analytic divergence of whole fields from the generator's own modes; "
         "the mean-velocity clause is decided exactly with a vanishing variance and linear scaling relations. Scope-limited: the split of component variances is statistical and not covered.",
    design_ref="DESIGN.md §4.9, §5 C16",
    note="trusted: TLC; reads the generator's private sample arrays to assemble the analytic divergence",
)

ALL = ["C%02d" % i for i in range(1, 21)]


def main():
    checks = []
    for pid in ALL:
        if pid not in CHECKS:
            continue
        c = CHECKS[pid]
        checks.append({
            "property_id": pid,
            "quick_cmd": "./check %s --tier quick" % pid,
            "thorough_cmd": "./check %s --tier thorough" % pid,
            "evidence_file": "/verif/evidence/%s.json" % pid,
            "replay_cmd_template": "./check %s --replay {path}" % pid,
            "engine": "tlc+replay",
            "level_claimed": {"category": c.get("category", "model_checking"), "text": c["text"], "design_ref": c["design_ref"]},
            "level_note": c["note"],
            "technique": c["technique"],
        })
    na = [{"property_id": p, "reason": NA.get(p, PENDING)} for p in ALL if p not in CHECKS]
    m = {
        "version": 1,
        "setup_cmd": "true",
        "hooks": {
            "guard": "GSTOOLS_VERIF",
            "enable": "no source hooks in /repo: checks install recording wrappers from /verif/harness at run time (./check exports GSTOOLS_VERIF=1)",
            "baseline_off_cmd": "cd /repo && /venv/bin/python -m pytest -ra -q -p no:cacheprovider --timeout=900 --continue-on-collection-errors",
            "source_commits": [],
            "add_only": True,
        },
        "engines": [{"name": "tlc+replay", "path": "/verif/check", "serves_properties": sorted(CHECKS),
                     "kind_free_text": "TLA+ specifications in /verif/spec checked with TLC; behaviours generated by TLC replayed into gstools, recorded traces validated against the specs"}],
        "checks": checks,
        "not_applicable": na,
        "notes": "fix: commits in /repo repair genuine defects found by the checks; see /verif/known_findings.json and DESIGN.md §6",
    }
    with open(os.path.join(ROOT, "MANIFEST.json"), "w") as fh:
        json.dump(m, fh, indent=1)
    print("MANIFEST.json: %d checks, %d not applicable" % (len(checks), len(na)))


if __name__ == "__main__":
    main()
